#!/usr/bin/env python3
"""Confirm a seeded change in its scratch worktree: demo passes without / fails with the patch,
the 41 stable baseline tests pass with the patch.  Writes <wt>/confirm.json."""
import json, os, subprocess, sys, xml.etree.ElementTree as ET
wt = sys.argv[1]
env = dict(os.environ, PYTHONPATH=wt, PYTHONDONTWRITEBYTECODE="1")
def run(cmd, **k):
    return subprocess.run(cmd, cwd=wt, env=env, capture_output=True, text=True, **k)
def demo():
    p = run(["/venv/bin/python", "-W", "ignore", "demo_seed.py"], timeout=1800)
    return p.returncode, (p.stdout + p.stderr)[-600:]
out = {}
st = run(["git", "diff", "--quiet", "--", "rockit"]).returncode
if st != 0:
    run(["git", "checkout", "--", "rockit"])
# confirm against the current HEAD of /repo
head = subprocess.run(["git", "-C", "/repo", "rev-parse", "HEAD"], capture_output=True, text=True).stdout.strip()
run(["git", "checkout", "-q", "--detach", head])
out["head"] = head
out["demo_without"] = demo()
a = run(["git", "apply", "patch.diff"])
out["apply"] = a.returncode
out["demo_with"] = demo()
j = os.path.join(wt, "confirm.junit.xml")
p = run(["/venv/bin/python", "-m", "pytest", "-q", "-p", "no:cacheprovider", "--timeout=900", "--continue-on-collection-errors", "--junitxml=" + j], timeout=3600)
passed = set()
for tc in ET.parse(j).iter("testcase"):
    if not any(c.tag in ("failure", "error", "skipped") for c in tc):
        passed.add("%s::%s" % (tc.get("classname"), tc.get("name")))
stable = set(json.load(open("/root/.vp/BASELINE.json"))["stable_pass"])
out["stable_missing"] = sorted(stable - passed)
out["n_passed"] = len(passed)
out["ok"] = out["demo_without"][0] == 0 and out["demo_with"][0] != 0 and not out["stable_missing"]
for f in os.listdir(wt):
    if f.endswith(".rockit") and f not in ("test.rockit",) or f.startswith("solver.000000"):
        try: os.remove(os.path.join(wt, f))
        except OSError: pass
run(["git", "checkout", "--", "test.rockit"])
json.dump(out, open(os.path.join(wt, "confirm.json"), "w"), indent=1)
print(json.dumps(out)[:400])
