#!/bin/sh
# Regression over the seeded changes: every change in seeded/<id>/patch.diff is applied to a scratch worktree of /repo
# (never to /repo itself), the property's quick check is run against that tree and must exit 1; the worktree is removed.
# usage: tools/run_seeds.sh [id-substring]
cd "$(dirname "$0")/.." || exit 3
WT=$(mktemp -d /tmp/verif-seeds.XXXXXX)
git -C /repo worktree add -q --detach "$WT/repo" HEAD || exit 3
trap 'git -C /repo worktree remove --force "$WT/repo" >/dev/null 2>&1; rm -rf "$WT"' EXIT
bad=0
for d in seeded/*${1:-}*/; do
  id=$(basename "$d"); prop=${id%%-*}
  git -C "$WT/repo" checkout -q -- . && git -C "$WT/repo" apply "$PWD/$d/patch.diff" 2>/dev/null || { echo "$id: patch does not apply to the current HEAD"; bad=$((bad+1)); continue; }
  VERIF_EVIDENCE_DIR="$WT/evidence" VERIF_REPLAY_DIR="$WT/replay" ./check "$prop" --tier quick --repo "$WT/repo" > "$WT/log" 2>&1
  rc=$?
  n=$(grep -c '^VIOLATION' "$WT/log"); nf=$(grep -c 'no-failing-input-found' "$WT/log")
  echo "$id: exit $rc, $n violation line(s), $((n-nf)) replayed natively"
  [ "$rc" = 1 ] || bad=$((bad+1))
done
echo "$bad seeded change(s) not detected"
[ "$bad" = 0 ]
