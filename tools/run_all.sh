#!/bin/sh
# run every claimed check (quick tier) on /repo and validate manifest + evidence
cd "$(dirname "$0")/.."
python3 tools_manifest.py || exit 1
rc=0
for p in $(python3 -c "import json; print(' '.join(c['property_id'] for c in json.load(open('MANIFEST.json'))['checks']))"); do
  out=$(./check $p --tier ${1:-quick} 2>&1 | tail -1); code=$?
  echo "$out"
  case "$out" in *"exit 0"*) ;; *) rc=1;; esac
done
python3-vt - <<'PY' || rc=1
import json, jsonschema, sys
man = json.load(open('MANIFEST.json'))
jsonschema.validate(man, json.load(open('/root/.vp/MANIFEST.schema.json')))
sch = json.load(open('/root/.vp/EVIDENCE.schema.json'))
bad = 0
for c in man['checks']:
    ev = json.load(open(c['evidence_file']))
    try:
        jsonschema.validate(ev, sch)
    except Exception as e:
        print('EVIDENCE INVALID', c['property_id'], str(e)[:200]); bad += 1; continue
    if ev['level'] != c['level_claimed']['category']:
        print('LEVEL MISMATCH', c['property_id'], ev['level'], c['level_claimed']['category']); bad += 1
    if ev['level'] == 'proof' and ev['coverage']['obligations'] != ev['coverage']['discharged']:
        print('PROOF NOT COMPLETE', c['property_id']); bad += 1
print('manifest + %d evidence files checked, %d problems' % (len(man['checks']), bad))
sys.exit(1 if bad else 0)
PY
exit $rc
