#!/bin/sh
# first run of a freshly seeded change: tools/first_run.sh <ID> <worktree-with-patch.diff> ; applies the patch to /tmp/wt/mut at /repo HEAD
cd "$(dirname "$0")/.." || exit 3
id=$1; src=$2
[ -d /tmp/wt/mut ] || git -C /repo worktree add -f --detach /tmp/wt/mut HEAD >/dev/null 2>&1
git -C /tmp/wt/mut checkout -q -- . && git -C /tmp/wt/mut checkout -q --detach "$(git -C /repo rev-parse HEAD)" || exit 3
git -C /tmp/wt/mut apply "$src/patch.diff" || { echo "$id: patch does not apply at HEAD"; exit 3; }
VERIF_EVIDENCE_DIR=/tmp/wt/mut.ev VERIF_REPLAY_DIR=/tmp/wt/mut.rp ./check "$id" --tier quick --repo /tmp/wt/mut > /tmp/wt/mut.log 2>&1
rc=$?
echo "$id: exit $rc; $(grep -c '^VIOLATION' /tmp/wt/mut.log) violation lines, $(grep -c 'no-failing-input-found' /tmp/wt/mut.log) without input"
grep -v "^ok\|^  ok\|^VIOLATION" /tmp/wt/mut.log | cut -c1-400 | head -${3:-6}
git -C /tmp/wt/mut checkout -q -- .
