"""
Model of the CasADi operations rockit uses  --  the ASSUMED dependency contracts (A-CASADI,
A-OPTI, A-INTG of DESIGN.md section 6).  Imported *as* `casadi` by the real rockit modules
when they run under the VC engine (python3-vt has no CasADi).

Denotation: a matrix is a dense column-major list of entries; an entry is a python float
(numeric constant, inf and nan allowed) or a z3 Real term.  z3 constants registered through
MX.sym / Opti.variable / Opti.parameter are *CasADi symbols*; any other z3 constant is a
universally quantified *numeric unknown* (a parameter value, a scale, a guess, ...).
DM = numeric matrix (no CasADi symbols).  MX = symbolic matrix.

Structural zeros are not modelled (everything is dense; nnz == numel).
Each operation here is validated against the real CasADi 3.8.1 on samples by
replay/dep_contracts.py (validation, not proof).
"""
import math
import itertools
import numbers
from fractions import Fraction as _Fr
import numpy as _np
import numpy as np      # real CasADi's namespace exports `np`; rockit.casadi_helpers relies on it
import z3

from vc.core import SymInt, SymReal, SymBool, Undecided, unwrap_int, concrete_value
from vc import core as _core

inf = float("inf")
nan = float("nan")
pi = math.pi

# ----------------------------------------------------------------------------------------
# entries
# ----------------------------------------------------------------------------------------
R = z3.RealSort()
INF = z3.Real("__inf")
NAN = z3.Real("__nan")
_LE = z3.Function("__le", R, R, R)
_LT = z3.Function("__lt", R, R, R)
_EQ = z3.Function("__eq", R, R, R)
_NE = z3.Function("__ne", R, R, R)
_LOW = z3.Function("__low", R, R, R)      # low(grid-id, t): opaque
_UN = {}


def _unary_fun(name):
    if name not in _UN:
        _UN[name] = z3.Function("__" + name, R, R)
    return _UN[name]


def isnum(e):
    return isinstance(e, (int, float, _Fr, bool))


def num(v):
    """python number -> canonical numeric entry: Fraction (exact, from the decimal repr of a
    float: A-FLOAT) or float for inf / nan"""
    if isinstance(v, _Fr):
        return v
    if isinstance(v, (bool, int)):
        return _Fr(int(v))
    v = float(v)
    if v != v or v in (inf, -inf):
        return v
    # A-FLOAT: a double is read as the simplest rational (denominator <= 10^4) that rounds to
    # it within 2 ulp (so 1.0/3 is 1/3 and np.linspace(0,1,4)[2] is 2/3), otherwise as its
    # shortest decimal representation
    ex = _Fr(v)
    r = ex.limit_denominator(10000)
    if r == ex or (ex != 0 and abs(r - ex) <= abs(ex) * _Fr(1, 2 ** 51)):
        return r
    return _Fr(repr(v))


def _isfinite(a):
    return isinstance(a, _Fr) or (isinstance(a, (int, bool))) or (isinstance(a, float) and math.isfinite(a))


def tz(e):
    """entry -> z3 term"""
    if isinstance(e, z3.ExprRef):
        return e
    if isinstance(e, bool):
        return z3.RealVal(int(e))
    if isinstance(e, int):
        return z3.RealVal(e)
    if isinstance(e, _Fr):
        return z3.RealVal(e)
    if isinstance(e, float):
        if e != e:
            return NAN
        if e == inf:
            return INF
        if e == -inf:
            return -INF
        return z3.RealVal(repr(e))
    raise TypeError("not an entry: %r" % (e,))


def entry(v):
    """python scalar / proxy -> entry"""
    if isinstance(v, z3.ExprRef):
        return v
    if isinstance(v, SymReal):
        return v.z
    if isinstance(v, SymInt):
        c = concrete_value(v.z)
        return _Fr(c) if c is not None else z3.ToReal(v.z)
    if isinstance(v, (bool, int, float, _Fr)):
        return num(v)
    if isinstance(v, (_np.integer, _np.floating, _np.bool_)):
        return num(float(v))
    raise TypeError("cannot convert %r to a matrix entry" % (type(v),))


def _n2(a, b, f):
    """numeric op on canonical numeric entries"""
    a, b = num(a), num(b)
    if isinstance(a, _Fr) and isinstance(b, _Fr):
        return f(a, b)
    try:
        return num(f(float(a), float(b)))
    except ZeroDivisionError:
        return nan


def e_add(a, b):
    if isnum(a) and isnum(b):
        return _n2(a, b, lambda x, y: x + y)
    if isnum(a) and a == 0:
        return b
    if isnum(b) and b == 0:
        return a
    return tz(a) + tz(b)


def e_neg(a):
    if isnum(a):
        return -num(a)
    return -a


def e_sub(a, b):
    if isnum(a) and isnum(b):
        return _n2(a, b, lambda x, y: x - y)
    if isnum(b) and b == 0:
        return a
    if isnum(a) and a == 0:
        return e_neg(b)
    return tz(a) - tz(b)


def e_mul(a, b):
    if isnum(a) and isnum(b):
        a, b = num(a), num(b)
        if isinstance(a, float) or isinstance(b, float):
            return num(float(a) * float(b))
        return a * b
    if isnum(a):
        if a == 0:
            return _Fr(0)
        if a == 1:
            return b
    if isnum(b):
        if b == 0:
            return _Fr(0)
        if b == 1:
            return a
    return tz(a) * tz(b)


_POSITIVE = set()     # names of numeric unknowns assumed > 0 on the current path


def _positive_unknown(t):
    return (not isnum(t)) and z3.is_const(t) and t.decl().name() in _POSITIVE


def e_div(a, b):
    if isnum(a) and isnum(b):
        a, b = num(a), num(b)
        if b == 0:
            if a != a or a == 0:
                return nan
            return math.copysign(inf, float(a))
        if isinstance(a, _Fr) and isinstance(b, _Fr):
            return a / b
        return num(float(a) / float(b))
    if isnum(b) and b == 1:
        return a
    if isnum(a) and a == 0:
        return _Fr(0)
    if isnum(a) and isinstance(num(a), float) and _positive_unknown(b):
        return num(a)            # +-inf / positive = +-inf ; nan / s = nan
    return tz(a) / tz(b)


def e_pow(a, b):
    if isnum(a) and isnum(b):
        a, b = num(a), num(b)
        if isinstance(a, _Fr) and isinstance(b, _Fr) and b.denominator == 1 and (a != 0 or b >= 0):
            return a ** int(b)
        try:
            return num(float(a) ** float(b))
        except (OverflowError, ZeroDivisionError):
            return nan
    if isnum(b) and _isfinite(b) and num(b).denominator == 1 and abs(b) <= 64:
        n = int(b)
        if n == 0:
            return _Fr(1)
        r = a
        for _ in range(abs(n) - 1):
            r = e_mul(r, a)
        return r if n > 0 else e_div(_Fr(1), r)
    return _core.RPOW(tz(a), tz(b))


def _same(a, b):
    if isnum(a) and isnum(b):
        a, b = num(a), num(b)
        return a == b
    if isnum(a) or isnum(b):
        return False
    return a.eq(b)


def e_cmp(op, a, b):
    if isnum(a) and isnum(b):
        a, b = num(a), num(b)
        return _Fr(int({"le": a <= b, "lt": a < b, "eq": a == b, "ne": a != b}[op]))
    for u, w in ((a, b), (b, a)):
        # numeric unknowns are finite reals: comparing one with +-inf is decided
        if isnum(u) and isinstance(num(u), float) and num(u) in (inf, -inf) and not isnum(w) and "__inf" not in _consts(w) and "__nan" not in _consts(w) and not has_casadi_symbol(w):
            pos = num(u) == inf
            if op == "eq":
                return _Fr(0)
            if op == "ne":
                return _Fr(1)
            if op in ("le", "lt"):
                # u (op) w  or  w (op) u
                if u is a:
                    return _Fr(0) if pos else _Fr(1)
                return _Fr(1) if pos else _Fr(0)
    if op == "eq" and _same(a, b):
        return _Fr(1)
    if op == "le" and _same(a, b):
        return _Fr(1)
    f = {"le": _LE, "lt": _LT, "eq": _EQ, "ne": _NE}[op]
    return f(tz(a), tz(b))


def e_unary(name, a):
    if isnum(a):
        if name == "sq":
            return e_mul(a, a)
        try:
            return num(float(getattr(math, name)(float(a))))
        except (ValueError, AttributeError, OverflowError):
            return nan
    if name == "sq":
        return a * a
    return _unary_fun(name)(a)


# ---- symbol registry -------------------------------------------------------------------
_SYMS = {}          # z3 const name -> (symbol MX, index)
_FAMILIES = {}      # z3 function name -> role; applications F(k) stand for the k-th member of an
                    # indexed family of CasADi symbols (unbounded tier: X[k], U[k], ...)
_uid = itertools.count()
_consts_cache = {}


def _consts(term):
    """set of names of z3 constants (arity 0, uninterpreted) in a term"""
    if isnum(term):
        return frozenset()
    key = term.get_id()
    r = _consts_cache.get(key)
    if r is not None:
        return r[1]
    out = set()
    seen = set()
    stack = [term]
    while stack:
        t = stack.pop()
        i = t.get_id()
        if i in seen:
            continue
        seen.add(i)
        if z3.is_const(t) and t.decl().kind() == z3.Z3_OP_UNINTERPRETED:
            out.add(t.decl().name())
        else:
            if t.decl().kind() == z3.Z3_OP_UNINTERPRETED and t.decl().name() in _FAMILIES:
                out.add(t.decl().name())
            stack.extend(t.children())
    out = frozenset(out)
    _consts_cache[key] = (term, out)   # keep term alive so ids are not recycled
    return out


def _consts_ordered(term, acc, seen):
    if isnum(term):
        return
    stack = [term]
    while stack:
        t = stack.pop()
        i = t.get_id()
        if i in seen:
            continue
        seen.add(i)
        if z3.is_const(t) and t.decl().kind() == z3.Z3_OP_UNINTERPRETED:
            acc.append(t.decl().name())
        else:
            stack.extend(reversed(t.children()))


def to_float(e):
    """numeric evaluation of an entry without CasADi symbols or numeric unknowns"""
    if isnum(e):
        return float(e)
    return _eval_float(e)


def _eval_float(t):
    k = t.decl().kind()
    if z3.is_rational_value(t):
        return float(t.numerator_as_long()) / float(t.denominator_as_long())
    if z3.is_int_value(t):
        return float(t.as_long())
    ch = t.children()
    if z3.is_const(t):
        n = t.decl().name()
        if n == "__inf":
            return inf
        if n == "__nan":
            return nan
        raise Undecided("numeric value of symbolic entry %s requested" % n)
    v = [_eval_float(c) for c in ch]
    if k == z3.Z3_OP_ADD:
        return sum(v)
    if k == z3.Z3_OP_SUB:
        r = v[0]
        for x in v[1:]:
            r -= x
        return r
    if k == z3.Z3_OP_UMINUS:
        return -v[0]
    if k == z3.Z3_OP_MUL:
        r = 1.0
        for x in v:
            r *= x
        return r
    if k == z3.Z3_OP_DIV:
        return e_div(v[0], v[1])
    if k == z3.Z3_OP_TO_REAL:
        return v[0]
    if k == z3.Z3_OP_UNINTERPRETED:
        n = t.decl().name()
        if n in ("__le", "__lt", "__eq", "__ne"):
            return e_cmp(n[2:], v[0], v[1])
        if n.startswith("__") and len(v) == 1:
            return e_unary(n[2:], v[0])
        if n == "rpow":
            return e_pow(v[0], v[1])
    raise Undecided("cannot evaluate %s numerically" % t.decl().name())


def is_numeric_entry(e):
    if isnum(e):
        return True
    return all(n in ("__inf", "__nan") for n in _consts(e))


def has_casadi_symbol(e):
    if isnum(e):
        return False
    return any(n in _SYMS or n in _FAMILIES for n in _consts(e))


# ----------------------------------------------------------------------------------------
# Sparsity (dense only)
# ----------------------------------------------------------------------------------------
class Sparsity:
    def __init__(self, rows=0, cols=0, *rest):
        if rest:
            raise Undecided("general sparsity patterns are not modelled")
        self.rows, self.cols = rows, cols

    @staticmethod
    def dense(r, c=1):
        return Sparsity(r, c)

    @property
    def shape(self):
        return (self.rows, self.cols)

    def size1(self): return self.rows
    def size2(self): return self.cols
    def numel(self): return self.rows * self.cols
    def nnz(self): return self.rows * self.cols
    def dim(self, *a): return "%dx%d" % (self.rows, self.cols)
    def __eq__(self, o): return isinstance(o, Sparsity) and self.shape == o.shape
    def __hash__(self): return hash(self.shape)
    def __repr__(self): return "Sparsity(%dx%d)" % (self.rows, self.cols)
    __str__ = __repr__


# ----------------------------------------------------------------------------------------
# matrices
# ----------------------------------------------------------------------------------------
def _norm_index(i, n, what="index"):
    """python/casadi index normalisation for a concrete int"""
    i = unwrap_int(i)
    if isinstance(i, SymInt):
        raise Undecided("symbolic index into a dense matrix")
    if isinstance(i, float) and i == int(i):
        i = int(i)
    i = int(i)
    if i < 0:
        i += n
    if not 0 <= i < n:
        raise RuntimeError("%s %d out of bounds [0,%d)" % (what, i, n))
    return i


def _index_list(ix, n):
    """index spec -> list of concrete indices"""
    if isinstance(ix, slice):
        start, stop, step = ix.start, ix.stop, ix.step
        start = None if start is None else int(unwrap_int(start))
        stop = None if stop is None else int(unwrap_int(stop))
        step = None if step is None else int(unwrap_int(step))
        return list(range(*slice(start, stop, step).indices(n)))
    if isinstance(ix, Mat):
        return [_norm_index(to_float(v), n) for v in ix.e]
    if isinstance(ix, (list, tuple, range)):
        return [_norm_index(v, n) for v in ix]
    if isinstance(ix, _np.ndarray):
        return [_norm_index(v, n) for v in ix.flatten()]
    return None


class _NZ:
    def __init__(self, m):
        self.m = m

    def __getitem__(self, ix):
        n = len(self.m.e)
        lst = _index_list(ix, n)
        if lst is None:
            return self.m._new(1, 1, [self.m.e[_norm_index(ix, n)]])
        return self.m._new(len(lst), 1, [self.m.e[i] for i in lst])

    def __iter__(self):
        return iter(self.m.e)

    def __len__(self):
        return len(self.m.e)


def _coerce(v):
    """anything -> Mat"""
    if isinstance(v, Mat):
        return v
    if isinstance(v, (SymReal, SymInt)):
        return MX._raw(1, 1, [entry(v)])
    if isinstance(v, z3.ExprRef):
        return MX._raw(1, 1, [v])
    if isinstance(v, (bool, int, float, _Fr, _np.integer, _np.floating)):
        return DM._raw(1, 1, [num(v) if isinstance(v, _Fr) else num(float(v))])
    if isinstance(v, _np.ndarray):
        return DM(v)
    if isinstance(v, (list, tuple, range)):
        return DM(v)
    if hasattr(v, "toarray") and hasattr(v, "nnz"):        # scipy sparse matrix
        return DM(_np.asarray(v.toarray()))
    if hasattr(v, "__casadi_model__"):
        return v.__casadi_model__()
    raise TypeError("cannot convert %r to a CasADi matrix" % (type(v),))


def _result_cls(*ms):
    return MX if any(isinstance(m, MX) for m in ms) else DM


def _binary(a, b, f, what="op"):
    try:
        a, b = _coerce(a), _coerce(b)
    except TypeError:
        # operand of a foreign type (e.g. a BSpline): CasADi's operators return NotImplemented so that Python tries
        # the other operand's reflected method (validated natively: MX + BSpline -> BSpline.__radd__)
        return NotImplemented
    cls = _result_cls(a, b)
    if a.shape == b.shape:
        return cls._raw(a.rows, a.cols, [f(x, y) for x, y in zip(a.e, b.e)])
    if a.shape == (1, 1):
        x = a.e[0]
        return cls._raw(b.rows, b.cols, [f(x, y) for y in b.e])
    if b.shape == (1, 1):
        y = b.e[0]
        return cls._raw(a.rows, a.cols, [f(x, y) for x in a.e])
    if a.rows == b.rows and a.cols and b.cols and a.rows:
        # CasADi >= 3.6: horizontal repetition when the column counts are multiples (validated natively)
        if a.cols % b.cols == 0:
            return _binary(a, repmat(b, 1, a.cols // b.cols), f, what)
        if b.cols % a.cols == 0:
            return _binary(repmat(a, 1, b.cols // a.cols), b, f, what)
    if a.numel() == 0 and b.numel() == 0 and a.rows == b.rows:
        # CasADi quirk (validated natively): 0x1 + 0x2 -> 0x2
        return cls._raw(a.rows, max(a.cols, b.cols), [])
    raise RuntimeError("Dimension mismatch for %s, x is %dx%d, while y is %dx%d" % (what, a.rows, a.cols, b.rows, b.cols))


class Mat:
    __array_priority__ = 10000
    rows = cols = 0
    e = ()

    @classmethod
    def _raw(cls, rows, cols, e, deps=None):
        m = object.__new__(cls)
        m.rows, m.cols = int(rows), int(cols)
        m.e = [num(x) if isinstance(x, (int, float, bool)) else x for x in e]
        assert len(m.e) == m.rows * m.cols, (rows, cols, len(m.e))
        m._deps = deps
        m._name = None
        return m

    def _new(self, r, c, e):
        return type(self)._raw(r, c, e)

    # ---- shape -------------------------------------------------------------------------
    @property
    def shape(self): return (self.rows, self.cols)
    def size(self, *a):
        if a:
            return self.shape[a[0] - 1]
        return self.shape
    def size1(self): return self.rows
    def size2(self): return self.cols
    def numel(self): return self.rows * self.cols
    def nnz(self): return self.rows * self.cols
    def sparsity(self): return Sparsity(self.rows, self.cols)
    def dim(self, *a): return "%dx%d" % (self.rows, self.cols)
    def is_empty(self, both=False):
        return (self.rows == 0 and self.cols == 0) if both else (self.rows == 0 or self.cols == 0)
    def is_scalar(self, *a): return self.rows == 1 and self.cols == 1
    def is_column(self): return self.cols == 1
    def is_row(self): return self.rows == 1
    def is_vector(self): return self.cols == 1 or self.rows == 1
    def is_dense(self): return True
    def is_square(self): return self.rows == self.cols

    def __len__(self):
        return self.rows

    # ---- elements ----------------------------------------------------------------------
    def at(self, i, j=0):
        return self.e[j * self.rows + i]

    def col(self, j):
        return self._new(self.rows, 1, self.e[j * self.rows:(j + 1) * self.rows])

    @property
    def nz(self):
        return _NZ(self)

    def nonzeros(self):
        return [to_float(x) for x in self.e]

    @property
    def T(self):
        return self._new(self.cols, self.rows, [self.at(i, j) for i in range(self.rows) for j in range(self.cols)])

    def _symbolic_index(self, ix):
        return isinstance(ix, Mat) and any(not isnum(v) for v in ix.e)

    def _select(self, idx_entry, items):
        """If-chain: items[idx] for a symbolic integer-valued index entry (out of range: first/last item)"""
        n = len(items)
        iz = tz(idx_entry)
        out = []
        for comp in range(len(items[0])):
            t = tz(items[n - 1][comp])
            for j in range(n - 2, -1, -1):
                t = z3.If(iz <= j, tz(items[j][comp]), t)
            out.append(t)
        return out

    def __getitem__(self, key):
        if isinstance(key, tuple) and self._symbolic_index(key[1]) and isinstance(key[0], slice) and key[0] == slice(None):
            # m[:, I] with symbolic column indices
            cols = [self.e[j * self.rows:(j + 1) * self.rows] for j in range(self.cols)]
            e = []
            for v in key[1].e:
                e.extend(self._select(v, cols) if not isnum(v) else cols[_norm_index(to_float(v), self.cols)])
            return MX._raw(self.rows, key[1].numel(), e)
        if not isinstance(key, (tuple, slice)) and self._symbolic_index(key):
            items = [[x] for x in self.e]
            e = []
            for v in key.e:
                e.extend(self._select(v, items) if not isnum(v) else items[_norm_index(to_float(v), len(items))])
            return MX._raw(key.rows, key.cols, e) if not (self.rows == 1 and self.cols != 1) else MX._raw(1, key.numel(), e)
        if isinstance(key, Sparsity):
            if key.shape != self.shape:
                raise Undecided("sparsity indexing with a different shape")
            return self
        if isinstance(key, tuple):
            ri, ci = key
            rl = _index_list(ri, self.rows)
            cl = _index_list(ci, self.cols)
            if rl is None:
                rl = [_norm_index(ri, self.rows, "row index")]
            if cl is None:
                cl = [_norm_index(ci, self.cols, "column index")]
            return self._new(len(rl), len(cl), [self.at(i, j) for j in cl for i in rl])
        n = self.rows * self.cols
        lst = _index_list(key, n)
        if lst is None:
            return self._new(1, 1, [self.e[_norm_index(key, n)]])
        if self.rows == 1 and self.cols != 1:
            return self._new(1, len(lst), [self.e[i] for i in lst])
        return self._new(len(lst), 1, [self.e[i] for i in lst])

    def __setitem__(self, key, val):
        val = _coerce(val)
        if isinstance(key, tuple):
            ri, ci = key
            rl = _index_list(ri, self.rows)
            cl = _index_list(ci, self.cols)
            if rl is None:
                rl = [_norm_index(ri, self.rows)]
            if cl is None:
                cl = [_norm_index(ci, self.cols)]
            pos = [j * self.rows + i for j in cl for i in rl]
        else:
            n = self.rows * self.cols
            lst = _index_list(key, n)
            pos = [_norm_index(key, n)] if lst is None else lst
        if val.numel() == 1:
            vals = [val.e[0]] * len(pos)
        elif val.numel() == len(pos):
            vals = val.e
        else:
            raise RuntimeError("Dimension mismatch in assignment")
        if isinstance(self, DM) and isinstance(val, MX):
            raise TypeError("cannot assign MX into DM")
        for p, v in zip(pos, vals):
            self.e[p] = v

    def __iter__(self):
        raise TypeError("CasADi matrix types are not iterable")

    # ---- arithmetic --------------------------------------------------------------------
    def __add__(self, o):
        if type(o).__name__ == "LVec":
            return NotImplemented
        return _binary(self, o, e_add, "(x+y)")
    def __radd__(self, o): return _binary(o, self, e_add, "(x+y)")
    def __sub__(self, o):
        if type(o).__name__ == "LVec":
            return NotImplemented
        return _binary(self, o, e_sub, "(x-y)")
    def __rsub__(self, o): return _binary(o, self, e_sub, "(x-y)")
    def __mul__(self, o):
        if type(o).__name__ == "LVec":
            return NotImplemented
        return _binary(self, o, e_mul, "(x*y)")
    def __rmul__(self, o): return _binary(o, self, e_mul, "(x*y)")
    def __truediv__(self, o):
        if type(o).__name__ == "LVec":
            return NotImplemented
        return _binary(self, o, e_div, "(x/y)")
    def __rtruediv__(self, o): return _binary(o, self, e_div, "(x/y)")
    def __pow__(self, o): return _binary(self, o, e_pow, "pow(x,y)")
    def __rpow__(self, o): return _binary(o, self, e_pow, "pow(x,y)")
    def __neg__(self): return self._new(self.rows, self.cols, [e_neg(x) for x in self.e])
    def __pos__(self): return self
    def __matmul__(self, o): return mtimes(self, o)
    def __rmatmul__(self, o): return mtimes(o, self)

    def _cmp(self, o, op, swap=False):
        try:
            o = _coerce(o)
        except TypeError:
            return NotImplemented
        a, b = (o, self) if swap else (self, o)
        r = _binary(a, b, lambda x, y: e_cmp(op, x, y), "(x%sy)" % op)
        r._deps = (a, b)
        r._op = op
        return r

    def __le__(self, o): return self._cmp(o, "le")
    def __ge__(self, o): return self._cmp(o, "le", swap=True)
    def __lt__(self, o): return self._cmp(o, "lt")
    def __gt__(self, o): return self._cmp(o, "lt", swap=True)

    def __eq__(self, o):
        if o is None or isinstance(o, str):
            return False
        try:
            oc = _coerce(o)
        except TypeError:
            return NotImplemented
        # CasADi puts constants on the left: (c==x)
        if isinstance(self, MX) and not isinstance(oc, MX) or (not self.has_symbols() and oc.has_symbols()):
            return self._cmp(oc, "eq")
        return self._cmp(oc, "eq")

    def __ne__(self, o):
        if o is None or isinstance(o, str):
            return True
        return self._cmp(o, "ne")

    def __bool__(self):
        if self.numel() == 1 and is_numeric_entry(self.e[0]):
            return to_float(self.e[0]) != 0
        raise TypeError("Only a scalar numeric matrix can be converted to bool")

    def __float__(self):
        if self.numel() != 1:
            raise TypeError("only 1x1 can be converted to float")
        return to_float(self.e[0])

    def __int__(self):
        return int(float(self))

    __index__ = __int__

    def __hash__(self):
        return hash((self.rows, self.cols, tuple((x if x == x else "nan") if isnum(x) else ("z", x.get_id()) for x in self.e)))

    def __array__(self, dtype=None, copy=None):
        a = _np.array([to_float(x) for x in self.e], dtype=float).reshape((self.cols, self.rows)).T
        return a.astype(dtype) if dtype is not None else a

    def full(self):
        return self.__array__()

    def __copy__(self):
        m = self._new(self.rows, self.cols, self.e)
        m._deps, m._name = self._deps, self._name
        if hasattr(self, "_op"):
            m._op = self._op
        return m

    def __deepcopy__(self, memo):
        return self.__copy__()

    # ---- queries -----------------------------------------------------------------------
    def has_symbols(self):
        return any(has_casadi_symbol(x) for x in self.e)

    def is_constant(self):
        return not self.has_symbols()

    def is_zero(self):
        return all(isnum(x) and x == 0 for x in self.e)

    def is_one(self):
        return self.numel() > 0 and all(isnum(x) and x == 1 for x in self.e)

    def is_regular(self):
        return all((not isnum(x)) or _isfinite(x) for x in self.e)

    def is_symbolic(self):
        """pure symbol: exactly the entries of one registered symbol"""
        if self.numel() == 0 or isnum(self.e[0]) or not z3.is_const(self.e[0]):
            return False
        n = self.e[0].decl().name()
        if n not in _SYMS:
            return False
        s = _SYMS[n][0]
        return s.shape == self.shape and all((not isnum(x)) and x.eq(y) for x, y in zip(self.e, s.e))

    def _entry_syms(self):
        out = []
        for x in self.e:
            if isnum(x) or not z3.is_const(x) or x.decl().name() not in _SYMS:
                return None
            out.append(_SYMS[x.decl().name()])
        return out

    def is_valid_input(self):
        es = self._entry_syms()
        if es is None or not es:
            return False
        # must be a concatenation of whole symbols
        i = 0
        while i < len(es):
            s, idx = es[i]
            n = s.numel()
            if idx != 0 or i + n > len(es):
                return False
            for j in range(n):
                if es[i + j][0] is not s or es[i + j][1] != j:
                    return False
            i += n
        return True

    def primitives(self):
        es = self._entry_syms()
        out = []
        i = 0
        while i < len(es):
            s = es[i][0]
            out.append(s)
            i += s.numel()
        return out

    def name(self):
        if self.is_symbolic():
            return _SYMS[self.e[0].decl().name()][0]._name
        raise RuntimeError("name() of a non-symbolic expression")

    def dep(self, i=0):
        if self._deps is None:
            raise Undecided("dep() of an expression whose structure is not modelled")
        return self._deps[i]

    def n_dep(self):
        return 0 if self._deps is None else len(self._deps)

    def to_DM(self):
        return DM._raw(self.rows, self.cols, self.e)

    def __repr__(self):
        if self.is_symbolic():
            return "%s(%s)" % (type(self).__name__, self.name())
        return "%s(%dx%d:%s)" % (type(self).__name__, self.rows, self.cols, ", ".join(_short(x) for x in self.e[:6]) + ("..." if len(self.e) > 6 else ""))

    def __str__(self):
        if self.is_symbolic():
            return self.name()
        return "[" + ", ".join(_short(x) for x in self.e) + "]"


def _short(x):
    s = str(x).replace("\n", " ")
    return s if len(s) < 60 else s[:57] + "..."


def _from_nested(v):
    """list / ndarray -> (rows, cols, column-major entries)"""
    if isinstance(v, range):
        v = list(v)
    if isinstance(v, _np.ndarray):
        if v.ndim == 0:
            return 1, 1, [float(v)]
        if v.ndim == 1:
            return len(v), 1, [entry(x) for x in v]
        if v.ndim == 2:
            r, c = v.shape
            return r, c, [entry(v[i, j]) for j in range(c) for i in range(r)]
        raise Undecided("ndarray with more than 2 dims")
    if len(v) > 0 and isinstance(v[0], (list, tuple, _np.ndarray)):
        r, c = len(v), len(v[0])
        return r, c, [entry(v[i][j]) for j in range(c) for i in range(r)]
    out = []
    for x in v:
        if isinstance(x, Mat):
            if x.numel() != 1:
                raise Undecided("nested matrix in list constructor")
            out.append(x.e[0])
        else:
            out.append(entry(x))
    return len(out), 1, out


class DM(Mat):
    def __new__(cls, *args):
        if len(args) == 1 and type(args[0]).__name__ == "LVec":
            return args[0]            # vectors of symbolic length are not copied
        return object.__new__(cls)

    def __init__(self, *args):
        self._deps = None
        self._name = None
        if len(args) == 0:
            self.rows, self.cols, self.e = 0, 0, []
        elif len(args) == 1:
            a = args[0]
            if isinstance(a, Mat):
                if isinstance(a, MX) and a.has_symbols():
                    raise TypeError("cannot convert a symbolic MX to DM")
                self.rows, self.cols, self.e = a.rows, a.cols, list(a.e)
            elif isinstance(a, Sparsity):
                self.rows, self.cols, self.e = a.rows, a.cols, [1.0] * a.numel()
            elif isinstance(a, (list, tuple, range, _np.ndarray)):
                self.rows, self.cols, self.e = _from_nested(a)
            elif hasattr(a, "toarray") and hasattr(a, "nnz"):        # scipy sparse matrix
                self.rows, self.cols, self.e = _from_nested(_np.asarray(a.toarray()))
            else:
                self.rows, self.cols, self.e = 1, 1, [entry(a)]
        elif len(args) == 2 and isinstance(args[0], Sparsity):
            sp, v = args
            v = _coerce(v) if not isinstance(v, (list, tuple)) else DM(list(v))
            if v.numel() not in (1, sp.numel()):
                raise RuntimeError("DM(Sparsity, values): %d values for %d nonzeros" % (v.numel(), sp.numel()))
            self.rows, self.cols = sp.rows, sp.cols
            self.e = list(v.e) if v.numel() == sp.numel() else [v.e[0]] * sp.numel()
        elif len(args) == 2:
            self.rows, self.cols = int(unwrap_int(args[0])), int(unwrap_int(args[1]))
            self.e = [0.0] * (self.rows * self.cols)
        else:
            raise Undecided("DM constructor form")
        self.e = [num(x) if isinstance(x, (int, float, bool)) else x for x in self.e]
        if isinstance(self, DM) and any(has_casadi_symbol(x) for x in self.e):
            raise TypeError("DM with CasADi symbols")

    @staticmethod
    def zeros(*a): return _filled(DM, a, 0.0)
    @staticmethod
    def ones(*a): return _filled(DM, a, 1.0)
    @staticmethod
    def nan(*a): return _filled(DM, a, nan)
    @staticmethod
    def inf(*a): return _filled(DM, a, inf)
    @staticmethod
    def eye(n): return DM._raw(n, n, [1.0 if i == j else 0.0 for j in range(n) for i in range(n)])
    @staticmethod
    def set_precision(*a): pass
    @staticmethod
    def rand(*a): raise Undecided("DM.rand")


def _shape_args(a):
    if len(a) == 0:
        return 1, 1
    if len(a) == 1:
        if isinstance(a[0], Sparsity):
            return a[0].rows, a[0].cols
        if isinstance(a[0], tuple):
            return int(a[0][0]), int(a[0][1])
        return int(unwrap_int(a[0])), 1
    return int(unwrap_int(a[0])), int(unwrap_int(a[1]))


def _filled(cls, a, v):
    r, c = _shape_args(a)
    return cls._raw(r, c, [v] * (r * c))


class MX(Mat):
    def __new__(cls, *args):
        if len(args) == 1 and type(args[0]).__name__ == "LVec":
            return args[0]
        return object.__new__(cls)

    def __init__(self, *args):
        self._deps = None
        self._name = None
        if len(args) == 0:
            self.rows, self.cols, self.e = 0, 0, []
        elif len(args) == 1:
            a = args[0]
            if isinstance(a, Mat):
                self.rows, self.cols, self.e = a.rows, a.cols, list(a.e)
                self._deps = a._deps
                if hasattr(a, "_op"):
                    self._op = a._op
            elif isinstance(a, Sparsity):
                self.rows, self.cols, self.e = a.rows, a.cols, [0.0] * a.numel()
            elif isinstance(a, (list, tuple, range, _np.ndarray)):
                self.rows, self.cols, self.e = _from_nested(a)
            elif hasattr(a, "__casadi_model__"):
                m_ = a.__casadi_model__()
                self.rows, self.cols, self.e = m_.rows, m_.cols, list(m_.e)
            else:
                self.rows, self.cols, self.e = 1, 1, [entry(a)]
        elif len(args) == 2 and isinstance(args[0], Sparsity):
            # MX(sparsity, nonzeros): the (dense) pattern filled column by column; a single value is repeated
            sp, v = args
            v = _coerce(v) if not isinstance(v, (list, tuple)) else MX(list(v))
            if v.numel() not in (1, sp.numel()):
                raise RuntimeError("MX(Sparsity, values): %d values for %d nonzeros" % (v.numel(), sp.numel()))
            self.rows, self.cols = sp.rows, sp.cols
            self.e = list(v.e) if v.numel() == sp.numel() else [v.e[0]] * sp.numel()
        elif len(args) == 2:
            self.rows, self.cols = int(unwrap_int(args[0])), int(unwrap_int(args[1]))
            self.e = [0.0] * (self.rows * self.cols)
        else:
            raise Undecided("MX constructor form")
        self.e = [num(x) if isinstance(x, (int, float, bool)) else x for x in self.e]

    @staticmethod
    def sym(name, *a):
        r, c = _shape_args(a)
        uid = next(_uid)
        m = MX._raw(r, c, [z3.Real("%s#%d_%d" % (name, uid, i)) for i in range(r * c)])
        m._name = name
        m._uid = uid
        for i, x in enumerate(m.e):
            _SYMS[x.decl().name()] = (m, i)
        return m

    @staticmethod
    def zeros(*a): return _filled(MX, a, 0.0)
    @staticmethod
    def ones(*a): return _filled(MX, a, 1.0)
    @staticmethod
    def nan(*a): return _filled(MX, a, nan)
    @staticmethod
    def inf(*a): return _filled(MX, a, inf)
    @staticmethod
    def eye(n): return MX(DM.eye(n))


SX = MX   # rockit only mentions SX in class lists


class LVec:
    """vector (row or column) with a symbolic number of entries; get(k) -> entry.
    Only what the unbounded tier needs: size queries, indexing, slicing, transposition."""
    __array_priority__ = 10000

    def __init__(self, n, get, row=False):
        self.n, self.get, self.row = unwrap_int(n), get, row

    @property
    def shape(self):
        return (1, self.n) if self.row else (self.n, 1)

    def numel(self): return self.n
    def size1(self): return self.shape[0]
    def size2(self): return self.shape[1]
    def is_row(self): return self.row
    def is_column(self): return not self.row
    def is_vector(self): return True
    def is_scalar(self, *a): return False
    def is_empty(self, *a): return False

    @property
    def T(self):
        return LVec(self.n, self.get, not self.row)

    def _norm(self, k):
        k = unwrap_int(k)
        n = self.n
        if isinstance(k, int) and isinstance(n, int):
            if k < 0:
                k += n
            if not 0 <= k < n:
                raise RuntimeError("index out of bounds")
            return k
        ks = k if isinstance(k, SymInt) else SymInt(z3.IntVal(int(k)))
        if ks < 0:
            ks = ks + n
        if not ((ks >= 0) & (ks < n)):
            raise RuntimeError("index out of bounds")
        return unwrap_int(ks)

    def __getitem__(self, k):
        if isinstance(k, tuple):
            r, c = k
            k = c if self.row else r
        if isinstance(k, slice):
            if k.step not in (None, 1):
                raise Undecided("slice step on symbolic vector")
            lo = 0 if k.start is None else unwrap_int(k.start)
            hi = self.n if k.stop is None else unwrap_int(k.stop)
            if isinstance(lo, int) and lo < 0:
                lo = self.n + lo
            if isinstance(hi, int) and hi < 0:
                hi = self.n + hi
            g = self.get
            return LVec(unwrap_int(hi - lo), lambda j, lo=lo, g=g: g(unwrap_int(j + lo)), self.row)
        return MX._raw(1, 1, [entry(self.get(self._norm(k)))])

    def _ew(self, o, f, swap=False):
        if isinstance(o, LVec):
            g2 = o.get
            return LVec(self.n, (lambda k, g=self.get, g2=g2: f(entry(g2(k)), entry(g(k))) if swap else f(entry(g(k)), entry(g2(k)))), self.row)
        o = _coerce(o)
        if o.numel() != 1:
            raise Undecided("LVec arithmetic with a non-scalar")
        v = o.e[0]
        return LVec(self.n, (lambda k, g=self.get: f(v, entry(g(k))) if swap else f(entry(g(k)), v)), self.row)

    def __add__(self, o): return self._ew(o, e_add)
    def __radd__(self, o): return self._ew(o, e_add, True)
    def __sub__(self, o): return self._ew(o, e_sub)
    def __rsub__(self, o): return self._ew(o, e_sub, True)
    def __mul__(self, o): return self._ew(o, e_mul)
    def __rmul__(self, o): return self._ew(o, e_mul, True)
    def __truediv__(self, o): return self._ew(o, e_div)

    def __repr__(self):
        return "LVec(n=%s)" % (self.n,)


# ----------------------------------------------------------------------------------------
# free functions
# ----------------------------------------------------------------------------------------
def _args_list(args):
    if len(args) == 1 and isinstance(args[0], (list, tuple)):
        return list(args[0])
    return list(args)


def vertcat(*args):
    ms = [_coerce(a) for a in args]
    if not ms:
        return DM._raw(0, 1, [])
    cls = _result_cls(*ms)
    keep = [m for m in ms if m.numel() > 0 or (m.rows > 0)]
    keep = [m for m in keep if not (m.rows == 0)]
    if not keep:
        return cls._raw(0, 1, [])
    c = keep[0].cols
    for m in keep:
        if m.cols != c:
            raise RuntimeError("vertcat dimension mismatch %s and %s" % (keep[0].shape, m.shape))
    rows = sum(m.rows for m in keep)
    e = []
    for j in range(c):
        for m in keep:
            e.extend(m.e[j * m.rows:(j + 1) * m.rows])
    return cls._raw(rows, c, e)


def horzcat(*args):
    ms = [_coerce(a) for a in args]
    if not ms:
        return DM._raw(1, 0, [])
    cls = _result_cls(*ms)
    keep = [m for m in ms if not (m.rows == 0 and m.cols == 0)]
    if not keep:
        return cls._raw(0, 0, [])
    r = keep[0].rows
    for m in keep:
        if m.rows != r:
            raise RuntimeError("horzcat dimension mismatch %s and %s" % (keep[0].shape, m.shape))
    e = []
    for m in keep:
        e.extend(m.e)
    return cls._raw(r, sum(m.cols for m in keep), e)


def _symlist(args):
    from vc.symlist import SymList
    return isinstance(args, SymList) and isinstance(unwrap_int(args.length), SymInt)


def vcat(args):
    if _symlist(args):
        return LVec(args.length, lambda k, a=args: _scalar_entry(a[k]), row=False)
    return vertcat(*list(args))


def hcat(args):
    if _symlist(args):
        return LVec(args.length, lambda k, a=args: _scalar_entry(a[k]), row=True)
    return horzcat(*list(args))


def _scalar_entry(v):
    if isinstance(v, Mat):
        if v.numel() != 1:
            raise Undecided("concatenation of a symbolic number of non-scalar blocks")
        return v.e[0]
    return entry(v)


def veccat(*args):
    ms = [_coerce(a) for a in args]
    cls = _result_cls(*ms) if ms else DM
    e = []
    for m in ms:
        e.extend(m.e)
    return cls._raw(len(e), 1, e)


def vvcat(args): return veccat(*list(args))


def vec(a):
    if isinstance(a, LVec):
        return LVec(a.n, a.get, row=False)
    a = _coerce(a)
    return a._new(a.numel(), 1, a.e)


def reshape(a, *sh):
    a = _coerce(a)
    r, c = _shape_args(sh)
    if r == -1:
        r = a.numel() // c
    if c == -1:
        c = a.numel() // r
    if r * c != a.numel():
        raise RuntimeError("reshape: number of elements must remain the same")
    return a._new(r, c, a.e)


def transpose(a): return _coerce(a).T


def mtimes(*args):
    ms = [_coerce(a) for a in _args_list(args)]
    r = ms[0]
    for b in ms[1:]:
        r = _mtimes2(r, b)
    return r


def _mtimes2(a, b):
    cls = _result_cls(a, b)
    if a.shape == (1, 1) or b.shape == (1, 1):
        return _binary(a, b, e_mul)
    if a.cols != b.rows:
        raise RuntimeError("Matrix product with incompatible dimensions. Lhs is %dx%d and rhs is %dx%d." % (a.rows, a.cols, b.rows, b.cols))
    e = []
    for j in range(b.cols):
        for i in range(a.rows):
            s = 0.0
            for k in range(a.cols):
                s = e_add(s, e_mul(a.at(i, k), b.at(k, j)))
            e.append(s)
    return cls._raw(a.rows, b.cols, e)


def dot(a, b):
    a, b = _coerce(a), _coerce(b)
    return sum1(vec(_binary(a, b, e_mul)))


def sumsqr(a):
    a = _coerce(a)
    return dot(a, a)


def sum1(a):
    a = _coerce(a)
    e = []
    for j in range(a.cols):
        s = 0.0
        for i in range(a.rows):
            s = e_add(s, a.at(i, j))
        e.append(s)
    return a._new(1, a.cols, e)


def sum2(a):
    a = _coerce(a)
    e = []
    for i in range(a.rows):
        s = 0.0
        for j in range(a.cols):
            s = e_add(s, a.at(i, j))
        e.append(s)
    return a._new(a.rows, 1, e)


def cumsum(a, axis=-1):
    a = _coerce(a)
    if axis == -1:
        axis = 1 if a.rows == 1 else 0
    if axis == 0:
        e = []
        for j in range(a.cols):
            s = 0.0
            for i in range(a.rows):
                s = e_add(s, a.at(i, j))
                e.append(s)
        return a._new(a.rows, a.cols, e)
    return cumsum(a.T, 0).T


def diff(a, n=1, axis=-1):
    a = _coerce(a)
    if n != 1:
        raise Undecided("diff n>1")
    if axis == -1:
        axis = 1 if a.rows == 1 else 0
    if axis == 0:
        return a._new(a.rows - 1, a.cols, [e_sub(a.at(i + 1, j), a.at(i, j)) for j in range(a.cols) for i in range(a.rows - 1)])
    return diff(a.T, 1, 0).T


def repmat(a, n, m=1):
    if isinstance(n, (tuple, list)):
        n, m = n
    a = _coerce(a)
    n, m = int(unwrap_int(n)), int(unwrap_int(m))
    return a._new(a.rows * n, a.cols * m,
                  [a.at(i % a.rows, j % a.cols) for j in range(a.cols * m) for i in range(a.rows * n)])


def kron(a, b):
    a, b = _coerce(a), _coerce(b)
    cls = _result_cls(a, b)
    R_, C_ = a.rows * b.rows, a.cols * b.cols
    return cls._raw(R_, C_, [e_mul(a.at(i // b.rows, j // b.cols), b.at(i % b.rows, j % b.cols)) for j in range(C_) for i in range(R_)])


def horzsplit(a, *arg):
    a = _coerce(a)
    if not arg:
        offs = list(range(a.cols + 1))
    elif isinstance(arg[0], (list, tuple, _np.ndarray)):
        offs = [int(x) for x in arg[0]]
    else:
        incr = int(unwrap_int(arg[0]))
        if incr < 1:
            raise RuntimeError("horzsplit: increment must be >= 1")
        offs = list(range(0, a.cols, incr)) + [a.cols]
    if offs and offs[0] != 0:
        raise RuntimeError("horzsplit: first offset must be zero")
    if offs and offs[-1] != a.cols:
        raise RuntimeError("horzsplit: last offset must equal the number of columns")
    return [a[:, offs[i]:offs[i + 1]] for i in range(len(offs) - 1)]


def vertsplit(a, *arg):
    a = _coerce(a)
    return [x.T for x in horzsplit(a.T, *arg)]


def linspace(a, b, n):
    a, b = _coerce(a), _coerce(b)
    n = unwrap_int(n)
    if isinstance(n, SymInt):
        if a.numel() != 1 or b.numel() != 1:
            raise Undecided("linspace on non-scalars")
        x0, x1 = a.e[0], b.e[0]
        step = e_div(e_sub(x1, x0), entry(n - 1))
        def get(i, x0=x0, x1=x1, step=step, n=n):
            i = unwrap_int(i)
            if isinstance(i, int) and i == 0:
                return x0
            if i == 0:
                return x0
            if i == n - 1:
                return x1
            return e_add(x0, e_mul(entry(i), step))
        return LVec(n, get, row=False)
    n = int(n)
    cls = _result_cls(a, b)
    if a.shape != b.shape:
        if a.numel() == 1:
            a = repmat(a, b.rows, b.cols)
        elif b.numel() == 1:
            b = repmat(b, a.rows, a.cols)
    if a.numel() != 1:
        # CasADi: linspace on vectors gives numel x n ... rockit only uses scalars
        raise Undecided("linspace on non-scalars")
    x0, x1 = a.e[0], b.e[0]
    if n < 2:
        raise RuntimeError("linspace: nsteps must be at least 2")
    # casadi: step = (b-a)/(n-1); ret[i] = a + i*step ; ret[n-1] = b
    step = e_div(e_sub(x1, x0), float(n - 1))
    e = [e_add(x0, e_mul(float(i), step)) for i in range(n)]
    e[-1] = x1
    e[0] = x0
    return cls._raw(n, 1, e)


def constpow(a, b):
    if isinstance(b, range):
        b = list(b)
    return _binary(a, b, e_pow, "constpow")


def power(a, b): return _binary(a, b, e_pow)


def _unary(name):
    def f(a):
        if isinstance(a, (int, float)):
            return e_unary(name, a)
        a = _coerce(a)
        return a._new(a.rows, a.cols, [e_unary(name, x) for x in a.e])
    f.__name__ = name
    return f


sin = _unary("sin"); cos = _unary("cos"); tan = _unary("tan"); exp = _unary("exp"); log = _unary("log")
sqrt = _unary("sqrt"); fabs = _unary("fabs"); floor = _unary("floor"); ceil = _unary("ceil")
tanh = _unary("tanh"); sinh = _unary("sinh"); cosh = _unary("cosh"); atan = _unary("atan")
asin = _unary("asin"); acos = _unary("acos")


def sq(a): return _coerce(a) * _coerce(a)
def _e_minmax(which):
    """entrywise fmin / fmax (A-CASADI): numeric operands are decided exactly; symbolic finite operands become an
    if-then-else term; operands involving nan / symbolic infinities stay undecided"""
    def f(x, y):
        if isnum(x) and isnum(y):
            x, y = num(x), num(y)
            if x != x or y != y:
                raise Undecided(which + " of nan")
            return (x if x >= y else y) if which == "fmax" else (x if x <= y else y)
        for w in (x, y):
            if isnum(w):
                if not _isfinite(num(w)):
                    raise Undecided(which + " with an infinite operand")
            elif "__inf" in _consts(w) or "__nan" in _consts(w):
                raise Undecided(which + " with an infinite operand")
        tx, ty = tz(x), tz(y)
        return z3.If(tx >= ty, tx, ty) if which == "fmax" else z3.If(tx <= ty, tx, ty)
    return f


def fmin(a, b): return _binary(a, b, _e_minmax("fmin"), "fmin")
def fmax(a, b): return _binary(a, b, _e_minmax("fmax"), "fmax")


def sparsify(a, *args): return _coerce(a)
def densify(a): return _coerce(a)


def evalf(a):
    a = _coerce(a)
    if a.has_symbols():
        raise RuntimeError("evalf: expression has free symbols")
    # fold pure-numeric terms to floats, keep numeric unknowns symbolic
    e = []
    for x in a.e:
        if isnum(x):
            e.append(x)          # exact rationals stay exact
        elif is_numeric_entry(x):
            try:
                e.append(to_float(x))
            except Undecided as ex_:
                ex_.acknowledge()
                e.append(_fold(x))        # value of an uninterpreted user function at numbers: stays symbolic
        else:
            e.append(x)
    return DM._raw(a.rows, a.cols, e)


def is_equal(a, b, depth=0):
    a, b = _coerce(a), _coerce(b)
    if a.shape != b.shape:
        return False
    return all(_same(x, y) for x, y in zip(a.e, b.e))


def symvar(a):
    a = _coerce(a)
    names, seen = [], set()
    for x in a.e:
        _consts_ordered(x, names, seen)
    out, got = [], set()
    for n in names:
        if n in _SYMS:
            s = _SYMS[n][0]
            if id(s) not in got:
                got.add(id(s))
                out.append(s)
    return out


def depends_on(a, b):
    a, b = _coerce(a), _coerce(b)
    if not b.is_valid_input() and b.numel() > 0:
        es = b._entry_syms()
        if es is None:
            raise RuntimeError("depends_on: second argument must be symbolic")
    want = set()
    for x in b.e:
        want |= _consts(x)
    if not want:
        return False
    for x in a.e:
        if _consts(x) & want:
            return True
    return False


def which_depends(*a): raise Undecided("which_depends")


def _subst_pairs(frm, to):
    pairs = []
    for f, t in zip(frm, to):
        f = _coerce(f)
        t = _coerce(t)
        if f.numel() == 0 and t.numel() == 0:
            continue
        if not f.is_valid_input():
            es = f._entry_syms()
            if es is None:
                raise RuntimeError("substitute: 'from' must be purely symbolic, got %r" % (f,))
        if t.shape != f.shape:
            # CasADi substitutes by calling Function(v, ex) on vdef: the call's argument rules apply
            if t.numel() == 0:
                t = MX._raw(f.rows, f.cols, [_Fr(0)] * f.numel())          # empty argument = zeros
            elif t.numel() == 1:
                t = repmat(t, f.rows, f.cols)
            elif t.numel() == f.numel() and t.is_vector() and f.is_vector():
                t = t.T                                                   # transposed vector accepted
            elif f.numel() == 1 or (t.rows == f.rows and f.cols and t.cols % f.cols == 0):
                raise Undecided("substitute with an evaluation-style (mapped / broadcast) replacement %s for %s" % (t.shape, f.shape))
            else:
                raise RuntimeError("substitute: dimension mismatch %s vs %s" % (f.shape, t.shape))
        for x, y in zip(f.e, t.e):
            pairs.append((x, tz(y)))
    return pairs


def _subst_entry(x, pairs, names):
    if isnum(x):
        return x
    if not (_consts(x) & names):
        return x
    r = z3.substitute(x, *pairs)
    return r


def substitute(*args):
    if len(args) != 3:
        raise Undecided("substitute arity")
    ex, frm, to = args
    single = not isinstance(ex, (list, tuple))
    exs = [ex] if single else list(ex)
    if not isinstance(frm, (list, tuple)):
        frm, to = [frm], [to]
    pairs = _subst_pairs(frm, to)
    names = set(p[0].decl().name() for p in pairs)
    # simultaneous substitution; duplicate 'from' symbols: first pair wins (z3 semantics) -
    # CasADi raises for duplicates, so flag them
    if len(names) != len(pairs):
        raise RuntimeError("substitute: duplicate symbol in 'from'")
    out = []
    for m in exs:
        m = _coerce(m)
        r = MX._raw(m.rows, m.cols, [_fold(_subst_entry(x, pairs, names)) for x in m.e])
        if m._deps is not None:
            # keep comparison structure
            r._deps = tuple(substitute(d, frm, to) for d in m._deps)
            if hasattr(m, "_op"):
                r._op = m._op
        out.append(r)
    return out[0] if single else out


def _fold(x):
    """exact numeric folding after substitution (closed arithmetic terms become rationals)"""
    if isnum(x):
        return x
    if not _consts(x):
        v = z3.simplify(x)
        if z3.is_rational_value(v):
            return _Fr(v.numerator_as_long(), v.denominator_as_long())
        return v
    return x


def low(grid, t, *a):
    """index i with grid[i] <= t < grid[i+1], clipped to [0, n-2]  (A-CASADI; default lookup mode).
    lookup_mode 'exact' = CasADi's equidistant-grid shortcut: floor((t-g0)/(g_last-g0)*(n-1)), clipped."""
    grid, t = _coerce(grid), _coerce(t)
    opts = a[0] if a else {}
    if t.numel() != 1:
        raise Undecided("low on a vector")
    g = [tz(x) for x in grid.e]
    n = len(g)
    tt = tz(t.e[0])
    mode = opts.get("lookup_mode", "linear") if isinstance(opts, dict) else "linear"
    if mode == "exact":
        pos = (tt - g[0]) / (g[-1] - g[0]) * (n - 1)
        idx = z3.RealVal(n - 2)
        for j in range(n - 3, -1, -1):
            idx = z3.If(pos < j + 1, z3.RealVal(j), idx)
    elif mode in ("linear", "binary", "auto"):
        idx = z3.RealVal(n - 2)
        for j in range(n - 3, -1, -1):
            idx = z3.If(tt < g[j + 1], z3.RealVal(j), idx)
    else:
        raise Undecided("low: lookup_mode %r" % mode)
    return MX._raw(1, 1, [idx])


def if_else(*a): raise Undecided("if_else")


# ---- differentiation (jtimes / jacobian) on the term language ---------------------------
_DER = {}


def _dfun(decl, i):
    key = (decl.name(), decl.arity(), i)       # the same user-function name may be used with different arities in one process
    if key not in _DER:
        _DER[key] = z3.Function("%s__d%d" % (decl.name(), i), *([R] * decl.arity() + [R]))
    return _DER[key]


def _diff_term(t, dirs, cache):
    """directional derivative of term t; dirs: const name -> direction term"""
    if isnum(t):
        return 0.0
    key = t.get_id()
    if key in cache:
        return cache[key]
    if not (_consts(t) & dirs.keys()):
        cache[key] = 0.0
        return 0.0
    k = t.decl().kind()
    ch = t.children()
    if z3.is_const(t):
        r = dirs.get(t.decl().name(), 0.0)
    elif k == z3.Z3_OP_ADD:
        r = 0.0
        for c in ch:
            r = e_add(r, _diff_term(c, dirs, cache))
    elif k == z3.Z3_OP_SUB:
        r = _diff_term(ch[0], dirs, cache)
        for c in ch[1:]:
            r = e_sub(r, _diff_term(c, dirs, cache))
    elif k == z3.Z3_OP_UMINUS:
        r = e_neg(_diff_term(ch[0], dirs, cache))
    elif k == z3.Z3_OP_MUL:
        r = 0.0
        for i, c in enumerate(ch):
            d = _diff_term(c, dirs, cache)
            if isnum(d) and d == 0:
                continue
            term = d
            for j, o in enumerate(ch):
                if j != i:
                    term = e_mul(term, o)
            r = e_add(r, term)
    elif k == z3.Z3_OP_DIV:
        a, b = ch
        da, db = _diff_term(a, dirs, cache), _diff_term(b, dirs, cache)
        r = e_sub(e_div(da, b), e_div(e_mul(a, db), e_mul(b, b)))
    elif k == z3.Z3_OP_TO_REAL:
        r = 0.0
    elif k == z3.Z3_OP_UNINTERPRETED:
        r = 0.0
        for i, c in enumerate(ch):
            d = _diff_term(c, dirs, cache)
            if isnum(d) and d == 0:
                continue
            r = e_add(r, e_mul(_dfun(t.decl(), i)(*ch), d))
    else:
        raise Undecided("derivative of %s" % t.decl().name())
    cache[key] = r
    return r


def jtimes(ex, arg, v, tr=False):
    ex, arg, v = _coerce(ex), _coerce(arg), _coerce(v)
    if tr:
        raise Undecided("jtimes transposed")
    if arg.shape != v.shape:
        raise RuntimeError("jtimes: 'arg' and 'v' must have the same shape, got %s and %s" % (arg.shape, v.shape))
    es = arg._entry_syms()
    if es is None:
        raise RuntimeError("jtimes: 'arg' must be symbolic")
    dirs = {}
    for x, d in zip(arg.e, v.e):
        dirs[x.decl().name()] = d
    cache = {}
    return MX._raw(ex.rows, ex.cols, [_diff_term(x, dirs, cache) for x in ex.e])


def jacobian(ex, arg, *a):
    ex, arg = _coerce(ex), _coerce(arg)
    cols = []
    for x in arg.e:
        cache = {}
        cols.append([_diff_term(y, {x.decl().name(): 1.0}, cache) for y in ex.e])
    e = [v for c in cols for v in c]
    return MX._raw(ex.numel(), arg.numel(), e)


def gradient(ex, arg): return jacobian(ex, arg).T
def hessian(ex, arg): raise Undecided("hessian")
def linear_coeff(*a): raise Undecided("linear_coeff")


# ----------------------------------------------------------------------------------------
# Function
# ----------------------------------------------------------------------------------------
# CasADi's operation codes (values as in CasADi 3.6)
OP_ADD, OP_SUB, OP_MUL, OP_DIV, OP_NEG, OP_CONSTPOW, OP_SQ, OP_TWICE, OP_LT, OP_LE = 1, 2, 3, 4, 5, 9, 11, 12, 19, 20
OP_CONST, OP_INPUT, OP_OUTPUT, OP_PARAMETER, OP_MTIMES = 44, 45, 46, 47, 52


class Function:
    def __init__(self, name, ins, outs, *rest):
        self._name = name
        names_in = names_out = None
        rest = list(rest)
        if len(rest) >= 2 and isinstance(rest[0], (list, tuple)) and isinstance(rest[1], (list, tuple)):
            names_in, names_out = list(rest[0]), list(rest[1])
            rest = rest[2:]
        self.opts = rest[0] if rest else {}
        self.ins = [MX(_coerce(i)) for i in ins]
        self.outs = [MX(_coerce(o)) for o in outs]
        for i in self.ins:
            if i.numel() and not i.is_valid_input():
                es = i._entry_syms()
                if es is None:
                    raise RuntimeError("Function %s: inputs must be purely symbolic, got %r" % (name, i))
        self.names_in = names_in or ["i%d" % k for k in range(len(self.ins))]
        self.names_out = names_out or ["o%d" % k for k in range(len(self.outs))]
        if len(self.names_in) != len(self.ins) or len(self.names_out) != len(self.outs):
            raise RuntimeError("Function %s: name list length mismatch" % name)
        self._in_names = set()
        for i in self.ins:
            for x in i.e:
                n = x.decl().name()
                if n in self._in_names:
                    raise RuntimeError("Function %s: duplicate input symbol %s" % (name, n))
                self._in_names.add(n)

        if not (isinstance(self.opts, dict) and self.opts.get("allow_free")):
            free = self.free_mx()
            if free:
                # MXFunction::init (validated natively): free symbols in the outputs are an error unless allow_free
                raise RuntimeError("Error in Function::Function for '%s': Initialization failed since variables [%s] are free. "
                                   "These symbols occur in the output expressions but you forgot to declare these as inputs." % (name, ", ".join(str(f._name) for f in free)))
        self._prog = None

    # ---- instruction-level view (used by casadi_helpers.reinterpret_expr) -----------------------------------
    # A-CASADI-INSTR: the algorithm is SOME topologically sorted list of atomic operations that evaluates the outputs;
    # the model emits CONST / INPUT / ADD / SUB / MUL / DIV / NEG / LE / LT / OUTPUT for all-scalar functions.
    def _program(self):
        if self._prog is not None:
            return self._prog
        if any(i.numel() != 1 for i in self.ins) or any(o.numel() != 1 for o in self.outs):
            raise Undecided("instruction view of a Function with non-scalar inputs or outputs")
        in_index = {i.e[0].decl().name(): k for k, i in enumerate(self.ins)}
        prog, slot = [], {}
        def new(op, ins, payload=None):
            prog.append((op, [len(prog)], list(ins), payload))
            return len(prog) - 1
        def walk(t):
            if isnum(t):
                return new(OP_CONST, [], DM._raw(1, 1, [t]))
            key = t.get_id()
            if key in slot:
                return slot[key]
            k = t.decl().kind()
            ch = t.children()
            if z3.is_rational_value(t):
                r = new(OP_CONST, [], DM._raw(1, 1, [_Fr(t.numerator_as_long(), t.denominator_as_long())]))
            elif k == z3.Z3_OP_UNINTERPRETED and not ch:
                n = t.decl().name()
                if n in in_index:
                    r = new(OP_INPUT, [in_index[n], 0])
                else:
                    raise Undecided("instruction view: numeric unknown / free symbol %s" % n)
            elif k == z3.Z3_OP_UNINTERPRETED and t.decl().name() in ("__le", "__lt") and len(ch) == 2:
                a_, b_ = walk(ch[0]), walk(ch[1])
                r = new(OP_LE if t.decl().name() == "__le" else OP_LT, [a_, b_])
            elif k in (z3.Z3_OP_ADD, z3.Z3_OP_MUL, z3.Z3_OP_SUB):
                r = walk(ch[0])
                for c_ in ch[1:]:
                    r = new({z3.Z3_OP_ADD: OP_ADD, z3.Z3_OP_MUL: OP_MUL, z3.Z3_OP_SUB: OP_SUB}[k], [r, walk(c_)])
            elif k == z3.Z3_OP_UMINUS:
                r = new(OP_NEG, [walk(ch[0])])
            elif k == z3.Z3_OP_DIV:
                r = new(OP_DIV, [walk(ch[0]), walk(ch[1])])
            else:
                raise Undecided("instruction view: operation %s" % t.decl().name())
            slot[key] = r
            return r
        for oi, o in enumerate(self.outs):
            w = walk(o.e[0])
            prog.append((OP_OUTPUT, [oi], [w], None))
        self._prog = prog
        return prog

    def n_instructions(self): return len(self._program())
    def sz_w(self): return len(self._program())
    def instruction_id(self, k): return self._program()[k][0]
    def instruction_output(self, k): return list(self._program()[k][1])
    def instruction_input(self, k): return list(self._program()[k][2])
    def instruction_MX(self, k):
        pl = self._program()[k][3]
        if pl is None:
            raise RuntimeError("instruction_MX: not a constant / parameter instruction")
        return MX(pl)

    def name(self): return self._name
    def n_in(self): return len(self.ins)
    def n_out(self): return len(self.outs)
    def name_in(self, *a): return self.names_in[a[0]] if a else list(self.names_in)
    def name_out(self, *a): return self.names_out[a[0]] if a else list(self.names_out)

    def _oi(self, i):
        return self.names_out.index(i) if isinstance(i, str) else i

    def _ii(self, i):
        return self.names_in.index(i) if isinstance(i, str) else i

    def numel_out(self, i=0): return self.outs[self._oi(i)].numel()
    def numel_in(self, i=0): return self.ins[self._ii(i)].numel()
    def size_out(self, i=0): return self.outs[self._oi(i)].shape
    def size_in(self, i=0): return self.ins[self._ii(i)].shape
    def size1_out(self, i=0): return self.size_out(i)[0]
    def size2_out(self, i=0): return self.size_out(i)[1]
    def size1_in(self, i=0): return self.size_in(i)[0]
    def size2_in(self, i=0): return self.size_in(i)[1]
    def mx_in(self, *a): return self.ins[self._ii(a[0])] if a else list(self.ins)
    def mx_out(self, *a): return self.outs[self._oi(a[0])] if a else list(self.outs)
    def sparsity_in(self, i=0): return self.ins[self._ii(i)].sparsity()
    def sparsity_out(self, i=0): return self.outs[self._oi(i)].sparsity()

    def free_mx(self):
        names, seen = [], set()
        for o in self.outs:
            for x in o.e:
                _consts_ordered(x, names, seen)
        out, got = [], set()
        for n in names:
            if n in _SYMS and n not in self._in_names:
                s = _SYMS[n][0]
                if id(s) not in got:
                    got.add(id(s))
                    out.append(s)
        return out

    def has_free(self): return bool(self.free_mx())
    def get_free(self): return [s._name for s in self.free_mx()]

    def _apply(self, argl):
        frm, to = [], []
        for pos, (i, a) in enumerate(zip(self.ins, argl)):
            a = _coerce(a)
            if a.shape != i.shape:
                if a.numel() == 1 and i.numel() > 0:
                    a = repmat(a, i.rows, i.cols)
                elif i.numel() == 0 and a.numel() <= 1:
                    continue        # a scalar (or empty) for an empty input is accepted and ignored
                elif a.numel() == i.numel() and a.shape == (i.cols, i.rows) and a.is_vector():
                    a = a.T
                elif i.numel() > 0 and a.rows == i.rows and a.cols % i.cols == 0 and i.cols == 1:
                    raise Undecided("Function map-call with %d columns" % a.cols)
                else:
                    raise RuntimeError("Function %s: input '%s' has shape %s, expected %s" % (self._name, self.names_in[pos], a.shape, i.shape))
            if i.numel() == 0:
                continue
            frm.append(i)
            to.append(a)
        if self.has_free():
            raise RuntimeError("Function %s has free variables %s" % (self._name, self.get_free()))
        if not frm:
            return [MX(o) for o in self.outs]
        return substitute(list(self.outs), frm, to)

    def _default_in(self, i):
        return DM.zeros(*self.ins[i].shape)

    def __call__(self, *args, **kwargs):
        if kwargs:
            if args:
                raise TypeError("Function call: mixing positional and keyword arguments")
            for k in kwargs:
                if k not in self.names_in:
                    raise RuntimeError("Function %s: no such input '%s'" % (self._name, k))
            argl = [kwargs[n] if n in kwargs else self._default_in(i) for i, n in enumerate(self.names_in)]
            res = self._apply(argl)
            return dict(zip(self.names_out, res))
        if len(args) != len(self.ins):
            raise RuntimeError("Function %s: expected %d inputs, got %d" % (self._name, len(self.ins), len(args)))
        # map-style call: an argument with k times the columns
        res = self._call_maybe_mapped(list(args))
        if len(res) == 1:
            return res[0]
        return tuple(res)

    def _call_maybe_mapped(self, args):
        args = [_coerce(a) for a in args]
        reps = 1
        for i, a in zip(self.ins, args):
            if i.numel() and a.rows == i.rows and a.cols != i.cols and i.cols > 0 and a.cols % i.cols == 0 and a.numel() != 1:
                reps = max(reps, a.cols // i.cols)
        if reps == 1:
            return self._apply(args)
        outs = None
        for r in range(reps):
            sl = []
            for i, a in zip(self.ins, args):
                if i.numel() and a.rows == i.rows and a.cols == reps * i.cols and a.numel() != 1:
                    sl.append(a[:, r * i.cols:(r + 1) * i.cols])
                else:
                    sl.append(a)
            res = self._apply(sl)
            if outs is None:
                outs = [[x] for x in res]
            else:
                for o, x in zip(outs, res):
                    o.append(x)
        return [hcat(o) for o in outs]

    def call(self, args, *flags):
        if isinstance(args, dict):
            return self(**args)
        return self._call_maybe_mapped(list(args))

    def map(self, *a, **k): raise Undecided("Function.map")
    def expand(self): return self
    def __repr__(self): return "Function(%s)" % self._name

    def __str__(self):
        # CasADi prints the signature only: name:(i0[2],i1,i2[0])->(o0[2]) MXFunction
        def dim(m):
            if m.shape == (1, 1):
                return ""
            if m.cols == 1:
                return "[%d]" % m.rows
            return "[%dx%d]" % (m.rows, m.cols)
        return "%s:(%s)->(%s) MXFunction" % (self._name, ",".join(n + dim(m) for n, m in zip(self.names_in, self.ins)),
                                             ",".join(n + dim(m) for n, m in zip(self.names_out, self.outs)))


# ----------------------------------------------------------------------------------------
# integrator (opaque, A-INTG) and collocation tables
# ----------------------------------------------------------------------------------------
class _Integrator(Function):
    """Opaque flow map: outputs are uninterpreted functions of (x0, p, z0) tagged by the
    identity of the DAE it was built from."""
    _count = itertools.count()
    _all = []

    def __init__(self, name, plugin, dae, *rest):
        _Integrator._all.append(self)
        self.last_call = None
        self._name = name
        self.plugin = plugin
        self.dae = dae
        self.rest = rest
        self.id = next(_Integrator._count)
        x = _coerce(dae.get("x", MX(0, 1)))
        z = _coerce(dae.get("z", MX(0, 1)))
        p = _coerce(dae.get("p", MX(0, 1)))
        q = _coerce(dae.get("quad", MX(0, 1)))
        # the flow map is a function of the DAE, not of the integrator object: two integrators built (with the same plugin) from
        # the same equations over their own input symbols are the same map -> the tag is a digest of the equations with the
        # input symbols renamed positionally
        try:
            import hashlib
            pairs = []
            for key in ("x", "z", "p", "t", "u"):
                for i, v in enumerate(_coerce(dae.get(key, MX(0, 1))).e):
                    if not isnum(v):
                        pairs.append((tz(v), z3.Real("__in_%s_%d" % (key, i))))
            body = []
            for key in ("ode", "alg", "quad"):
                for v in _coerce(dae.get(key, MX(0, 1))).e:
                    t_ = tz(v)
                    body.append((z3.substitute(t_, *pairs) if pairs else t_).sexpr())
            self.id = "h" + hashlib.sha256(("%s|%s" % (plugin, "|".join(body))).encode()).hexdigest()[:12]
        except Exception:
            pass
        self.nx, self.nz, self.np_, self.nq = x.numel(), z.numel(), p.numel(), q.numel()
        self.names_in = ["x0", "z0", "p", "u", "adj_xf", "adj_zf", "adj_qf"]
        self.names_out = ["xf", "zf", "qf", "adj_x0", "adj_z0", "adj_p", "adj_u"]
        self.ins, self.outs = [], []

    def size2_out(self, n):
        grid = [r for r in self.rest if isinstance(r, (list, tuple))]
        return 1

    def _flow(self, x0, p, z0):
        args = [tz(v) for m in (x0, p, z0) for v in m.e]
        def mk(tag, n):
            fs = [z3.Function("__intg%s_%s_%d" % (self.id, tag, i), *([R] * (len(args) + 1))) for i in range(n)]
            return MX._raw(n, 1, [f(*args) if args else f() for f in fs])
        return {"xf": mk("xf", self.nx), "zf": mk("zf", self.nz), "qf": mk("qf", self.nq)}

    def __call__(self, **kw):
        self.last_call = dict(kw)
        x0 = _coerce(kw.get("x0", DM.zeros(self.nx)))
        p = _coerce(kw.get("p", DM.zeros(self.np_)))
        z0 = _coerce(kw.get("z0", DM.zeros(self.nz)))
        return self._flow(x0, p, z0)

    def call(self, d, *flags):
        return self(**d)


def integrator(name, plugin, dae, *rest):
    return _Integrator(name, plugin, dae, *rest)


def _legendre_roots(d):
    x, _ = _np.polynomial.legendre.leggauss(d)
    return sorted(float((v + 1) / 2) for v in x)


def _radau_roots(d):
    # Radau IIA: roots of P_d(x) - P_{d-1}(x) on [-1,1] (includes x=1), mapped to [0,1]
    from numpy.polynomial import legendre as L
    c = _np.zeros(d + 1)
    c[d] = 1.0
    c[d - 1] = -1.0
    r = L.legroots(c)
    r = sorted(float((v.real + 1) / 2) for v in r)
    r[-1] = 1.0
    return r


def collocation_points(order, scheme="radau"):
    if scheme == "radau":
        return _radau_roots(order)
    if scheme == "legendre":
        return _legendre_roots(order)
    raise RuntimeError("Unknown collocation scheme '%s'" % scheme)


def collocation_coeff(tau):
    """CasADi's definition: Lagrange basis on [0]+tau; C[j, r-1] = l_j'(tau_r), D[j] = l_j(1),
    B[r-1] = int_0^1 l_r  (the weight of node 0 is dropped, as CasADi does)."""
    d = len(tau)
    t = [0.0] + list(tau)
    C = _np.zeros((d + 1, d + 1))
    D = _np.zeros(d + 1)
    B = _np.zeros(d + 1)
    for j in range(d + 1):
        p = _np.poly1d([1.0])
        for r in range(d + 1):
            if r != j:
                p *= _np.poly1d([1.0, -t[r]]) / (t[j] - t[r])
        D[j] = p(1.0)
        dp = _np.polyder(p)
        for r in range(d + 1):
            C[j, r] = dp(t[r])
        B[j] = _np.polyint(p)(1.0)
    return (DM(C[:, 1:]), DM(D), DM(B[1:].reshape(1, d)))


def collocation_interpolators(tau):
    C, D, B = collocation_coeff(tau)
    raise Undecided("collocation_interpolators fallback")


def interpolant(*a, **k): raise Undecided("interpolant")
def external(*a, **k): raise Undecided("external")


# ----------------------------------------------------------------------------------------
# Opti  (ghost NLP)
# ----------------------------------------------------------------------------------------
OPTI_GENERIC_EQUALITY, OPTI_GENERIC_INEQUALITY, OPTI_EQUALITY, OPTI_INEQUALITY, OPTI_DOUBLE_INEQUALITY, OPTI_PSD, OPTI_UNKNOWN = 0, 1, 2, 3, 4, 5, 6


class _MetaCon:
    pass


def _flatten_le(m):
    """unchain  a <= (b <= c)  /  (a <= b) <= c  ->  [a, b, c]"""
    if getattr(m, "_op", None) in ("le", "lt") and m._deps is not None:
        a, b = m._deps
        la = _flatten_le(a) if getattr(a, "_op", None) in ("le", "lt") else [a]
        lb = _flatten_le(b) if getattr(b, "_op", None) in ("le", "lt") else [b]
        return la + lb
    return [m]


class OptiAdvanced:
    def __init__(self, opti):
        self.opti = opti
        self._symvar = list(opti._vars) + list(opti._pars)

    def symvar(self, *a):
        return list(self._symvar)

    def is_parametric(self, e):
        e = _coerce(e)
        names = self.opti._var_names
        return not any(_consts(x) & names for x in e.e)

    def canon_expr(self, c):
        c = _coerce(c)
        mc = _MetaCon()
        mc.original = c
        op = getattr(c, "_op", None)
        if op in ("le", "lt"):
            args = _flatten_le(c)
            par = [self.is_parametric(a) for a in args]
            if len(args) == 2 and (par[0] or par[1]):
                if par[0] and par[1]:
                    raise RuntimeError("Constraint must contain decision variables.")
                e = args[0] - args[1]
                if par[0]:
                    mc.lb, mc.ub, mc.canon = args[0] * DM.ones(*e.shape), DM.inf(*e.shape), args[1] * DM.ones(*e.shape)
                else:
                    mc.lb, mc.ub, mc.canon = -DM.inf(*e.shape), args[1] * DM.ones(*e.shape), args[0] * DM.ones(*e.shape)
                mc.type = OPTI_INEQUALITY
            elif len(args) == 3 and par[0] and par[2]:
                mc.type = OPTI_DOUBLE_INEQUALITY
                mc.lb, mc.canon, mc.ub = args[0], args[1], args[2]
            else:
                mc.type = OPTI_GENERIC_INEQUALITY
                rows = [args[j] - args[j + 1] for j in range(len(args) - 1)]
                mc.canon = veccat(*rows)
                mc.lb = -DM.inf(*mc.canon.shape)
                mc.ub = DM.zeros(*mc.canon.shape)
        elif op == "eq":
            a, b = c._deps
            e = a - b
            if self.is_parametric(a):
                mc.canon, mc.lb, mc.type = b * DM.ones(*e.shape), a * DM.ones(*e.shape), OPTI_EQUALITY
            elif self.is_parametric(b):
                mc.canon, mc.lb, mc.type = a * DM.ones(*e.shape), b * DM.ones(*e.shape), OPTI_EQUALITY
            else:
                mc.lb, mc.canon, mc.type = DM.zeros(*e.shape), e, OPTI_GENERIC_EQUALITY
            mc.ub = mc.lb
        else:
            raise RuntimeError("canon_expr: not a constraint expression: %r" % (c,))
        mc.n = mc.canon.numel()
        return mc


class _Debug:
    def __init__(self, opti):
        self.opti = opti

    def value(self, expr, values=()):
        return self.opti.value(expr, values)

    def show_infeasibilities(self, *a):
        pass


class Opti:
    _count = itertools.count()

    def __init__(self, *a):
        self._id = next(Opti._count)
        self._vars, self._pars = [], []
        self._var_names, self._par_names = set(), set()
        self._g = []            # list of MetaCon (in emission order)
        self._f = None
        self._n_minimize = 0
        self._init = {}         # z3 const name -> entry (starting value of solver variable)
        self._pval = {}         # z3 const name -> entry
        self._solver = None
        self._log = []          # chronological ghost log of every Opti-level effect
        self._user = []

    def _in_symbolic_iteration(self, n, m, role):
        """Opti.variable / parameter called inside the verified (arbitrary) iteration k of an invariant-cut loop:
        the symbol created there is the k-th member of a family, one family per creation site of the body"""
        c = _core._CTX[0]
        if c is None or not c.loop_ctx:
            return None
        tag, k, cnt = c.loop_ctx[-1]
        site = cnt["n"]
        cnt["n"] += 1
        key = (tag, site, role, n * m)
        if not hasattr(self, "_loop_families"):
            self._loop_families = {}
        if key not in self._loop_families:
            self._loop_families[key] = self.family("it%d_%s%d" % (len(self._loop_families), role, site), n * m, role=role)
        return reshape(self._loop_families[key](k), n, m)

    def loop_family(self, tag, site, n, role="x"):
        """the family created at creation site `site` of the loop `tag` (for sidecar invariants)"""
        if not hasattr(self, "_loop_families"):
            self._loop_families = {}
        key = (tag, site, role, n)
        if key not in self._loop_families:
            self._loop_families[key] = self.family("it%d_%s%d" % (len(self._loop_families), role, site), n, role=role)
        return self._loop_families[key]

    # -- declaration
    def variable(self, n=1, m=1, *a):
        n, m = int(unwrap_int(n)), int(unwrap_int(m))
        r = self._in_symbolic_iteration(n, m, "x")
        if r is not None:
            return r
        v = MX.sym("opti%d_x_%d" % (self._id, len(self._vars) + 1), int(unwrap_int(n)), int(unwrap_int(m)))
        v._opti = ("x", self._id)
        self._vars.append(v)
        for x in v.e:
            self._var_names.add(x.decl().name())
            self._init[x.decl().name()] = 0.0
        return v

    def parameter(self, n=1, m=1, *a):
        n, m = int(unwrap_int(n)), int(unwrap_int(m))
        r = self._in_symbolic_iteration(n, m, "p")
        if r is not None:
            return r
        p = MX.sym("opti%d_p_%d" % (self._id, len(self._pars) + 1), int(unwrap_int(n)), int(unwrap_int(m)))
        p._opti = ("p", self._id)
        self._pars.append(p)
        for x in p.e:
            self._par_names.add(x.decl().name())
            self._pval[x.decl().name()] = nan
        return p

    def set_domain(self, v, domain):
        self._log.append(("domain", v, domain))

    def family(self, name, n=1, role="x"):
        """indexed family of decision variables (role 'x') or parameters (role 'p'):
        returns k -> MX(n x 1) whose entries are the applications name_i(k)"""
        fs = [z3.Function("%s_%d@opti%d" % (name, i, self._id), z3.IntSort(), R) for i in range(n)]
        for f in fs:
            _FAMILIES[f.name()] = role
            (self._var_names if role == "x" else self._par_names).add(f.name())
        def member(k):
            kz = k.z if isinstance(k, SymInt) else z3.IntVal(int(k))
            return MX._raw(n, 1, [f(kz) for f in fs])
        return member

    # -- problem
    def subject_to(self, *args):
        if not args:
            self._g = []
            self._log.append(("clear_constraints",))
            return
        c = args[0]
        if isinstance(c, (list, tuple)):
            for x in c:
                self.subject_to(x)
            return
        c = _coerce(c)
        for x in c.e:
            for n in _consts(x):
                if n in _SYMS and n not in self._var_names and n not in self._par_names:
                    raise RuntimeError("Opti.subject_to: symbol '%s' does not belong to this Opti instance (free / declared outside of Opti)" % _SYMS[n][0]._name)
        mc = self.advanced.canon_expr(c)
        self._g.append(mc)
        self._log.append(("subject_to", mc))

    def minimize(self, f):
        f = _coerce(f)
        if f.numel() != 1:
            raise RuntimeError("Objective must be scalar, got %s" % f.dim())
        for n in _consts(f.e[0]) if not isnum(f.e[0]) else ():
            if n in _SYMS and n not in self._var_names and n not in self._par_names:
                raise RuntimeError("Opti.minimize: symbol '%s' does not belong to this Opti instance" % _SYMS[n][0]._name)
        self._f = f
        self._n_minimize += 1
        self._log.append(("minimize", f))

    def solver(self, name, *opts):
        self._solver = (name,) + tuple(opts)
        self._log.append(("solver", name, opts))

    def callback(self, f):
        self._log.append(("callback", f))

    def update_user_dict(self, c, d):
        self._user.append((c, d))

    # -- values
    def _assign(self, key, value, table, names, what):
        if isinstance(key, LVec):
            # a symbolic number of symbols at once: recorded as "for all j: symbol key[j] gets value[j]"
            if not isinstance(value, LVec):
                value = _coerce(value)
                if value.numel() != 1:
                    raise Undecided("Opti.set_%s of a symbolic number of symbols with a concrete matrix" % what)
                v0 = value.e[0]
                value = LVec(key.n, lambda j, v0=v0: v0, key.row)
            if not hasattr(self, "_sym_assign"):
                self._sym_assign = []
            self._sym_assign.append((what, key, value))
            self._log.append(("set_" + what, key, value))
            return
        key = _coerce(key)
        value = _coerce(value)
        if isinstance(value, MX) and value.has_symbols():
            raise RuntimeError("Opti.set_%s: value must be numeric" % what)
        if value.shape != key.shape:
            if value.numel() == 1:
                value = repmat(value, key.rows, key.cols)
            elif value.numel() == key.numel() and value.is_vector() and key.is_vector():
                value = value.T
            else:
                raise RuntimeError("Opti.set_%s: dimension mismatch: key %s value %s" % (what, key.shape, value.shape))
        seen = {}
        for k, v in zip(key.e, value.e):
            if isnum(k):
                # constant entry in the key: CasADi ignores structural constants
                continue
            cs = [n for n in _consts(k) if n in _SYMS]
            if len(cs) == 0:
                continue
            if len(cs) > 1:
                raise RuntimeError("You cannot set initial/value of an arbitrary expression. Use symbols or simple mappings of symbols.")
            n = cs[0]
            if n in self._par_names and what == "initial":
                raise RuntimeError("You cannot set an initial value for a parameter. Did you mean 'set_value'?")
            if n in self._var_names and what == "value":
                raise RuntimeError("You cannot set a value for a variable. Did you mean 'set_initial'?")
            if n not in names:
                raise RuntimeError("Opti.set_%s: symbol does not belong to this Opti instance" % what)
            a, b = _affine_in(k, n)
            if a is None:
                raise RuntimeError("You cannot set initial/value of an arbitrary expression. Use symbols or simple mappings of symbols.")
            val = e_div(v, a)        # CasADi solves the linear map only; a constant offset in the key is ignored (validated natively)
            if n in seen and not _same(seen[n], val):
                raise RuntimeError("Initial/value assignment with mapping is ambiguous.")
            seen[n] = val
        for n, val in seen.items():
            table[n] = val
        self._log.append(("set_" + what, key, value))

    def set_initial(self, key, value=None):
        if value is None and isinstance(key, (list, tuple)):
            for eq in key:
                self.set_initial(eq.dep(1), eq.dep(0))
            return
        self._assign(key, value, self._init, self._var_names, "initial")

    def set_value(self, key, value=None):
        if value is None and isinstance(key, (list, tuple)):
            for eq in key:
                self.set_value(eq.dep(1), eq.dep(0))
            return
        self._assign(key, value, self._pval, self._par_names, "value")

    def initial(self):
        out = []
        for v in self._vars:
            val = DM._raw(v.rows, v.cols, [self._init[x.decl().name()] for x in v.e])
            out.append(MX(val) == v)
        return out

    def value_parameters(self):
        out = []
        for p in self._pars:
            val = DM._raw(p.rows, p.cols, [self._pval[x.decl().name()] for x in p.e])
            out.append(MX(val) == p)
        return out

    def value_variables(self):
        return self.initial()

    def value(self, expr, values=()):
        expr = _coerce(expr)
        frm, to = [], []
        for eq in values:
            frm.append(eq.dep(1))
            to.append(eq.dep(0))
        r = substitute(MX(expr), frm, to) if frm else MX(expr)
        if r.has_symbols():
            raise RuntimeError("Opti.value: expression still depends on symbols without a value")
        d = evalf(r)
        return d

    @property
    def debug(self): return _Debug(self)

    @property
    def advanced(self): return OptiAdvanced(self)

    @property
    def x(self): return veccat(*self._vars) if self._vars else MX(0, 1)

    @property
    def p(self): return veccat(*self._pars) if self._pars else MX(0, 1)

    @property
    def g(self): return veccat(*[m.canon for m in self._g]) if self._g else MX(0, 1)

    @property
    def lbg(self): return veccat(*[m.lb for m in self._g]) if self._g else MX(0, 1)

    @property
    def ubg(self): return veccat(*[m.ub for m in self._g]) if self._g else MX(0, 1)

    @property
    def f(self): return self._f if self._f is not None else MX(0.0)

    @property
    def lam_g(self): return MX.sym("lam_g", self.g.numel())

    @property
    def nx(self): return self.x.numel()
    @property
    def ng(self): return self.g.numel()
    @property
    def np(self): return self.p.numel()

    def solve(self): raise Undecided("Opti.solve: NLP solvers are outside the model")
    def solve_limited(self): raise Undecided("Opti.solve_limited")
    def to_function(self, *a, **k): raise Undecided("Opti.to_function")
    def copy(self): raise Undecided("Opti.copy")


def _affine_in(term, name):
    """term == a*sym + b  with a, b free of CasADi symbols -> (a, b) else (None, None)"""
    sym = None
    # locate the constant
    stack = [term]
    seen = set()
    while stack:
        t = stack.pop()
        if t.get_id() in seen:
            continue
        seen.add(t.get_id())
        if z3.is_const(t) and t.decl().name() == name:
            sym = t
            break
        stack.extend(t.children())
    b = z3.simplify(z3.substitute(term, (sym, z3.RealVal(0))))
    one = z3.simplify(z3.substitute(term, (sym, z3.RealVal(1))))
    a = z3.simplify(one - b)
    # check affinity: term == a*sym + b  (syntactic normal form through simplify)
    chk = z3.simplify(term - (a * sym + b), som=True)
    if not (z3.is_rational_value(chk) and chk.numerator_as_long() == 0):
        s = z3.Solver()
        s.set("timeout", 2000)
        s.add(term != a * sym + b)
        if s.check() != z3.unsat:
            return None, None
    def back(v):
        if z3.is_rational_value(v):
            return float(v.numerator_as_long()) / float(v.denominator_as_long())
        return v
    return back(a), back(b)


# ---- opcodes mentioned by rockit.casadi_helpers.reinterpret_expr -------------------------
(OP_CONST, OP_INPUT, OP_OUTPUT, OP_ADD, OP_TWICE, OP_SUB, OP_MUL, OP_MTIMES, OP_PARAMETER,
 OP_SQ, OP_LE, OP_LT, OP_NEG, OP_CONSTPOW) = range(100, 114)


class GlobalOptions:
    @staticmethod
    def getCasadiPath(): return ""


class StringSerializer:
    def __init__(self, *a): raise Undecided("serialisation is outside the model (C18 not applicable)")


class StringDeserializer(StringSerializer):
    pass


__version__ = "3.8.1-model"
