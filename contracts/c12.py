"""
C12: stages compose without interference; clones equal their template.

Bounded obligations (real code on the casadi model): the ghost NLP of a multi-stage OCP is the
disjoint union of the per-stage oracle rows (each stage on its own grid / method / variables /
parameters) plus the master's own rows; the objective is the sum; a clone's rows are those of a
stage declared directly with the same content and the overridden t0/T; the template is unchanged.
Structural obligation: Stage.clone transfers every specification field that Stage.__init__ creates
(field completeness), so that a field added later cannot be forgotten silently.
"""
import ast
import os

import casadi as ca

from vc.core import ctx
from vc.runner import Task
from . import nlp
from .spec import Spec, E, Con
from . import spec as spec_mod
from .oracle import Oracle
from .backend import ufun, unknown

SPEC_FIELDS_INIT = ["states", "qstates", "controls", "algebraics", "parameters", "variables", "_signals", "_param_vals", "_state_der",
                    "_scale_der", "_state_next", "_alg", "_constraints", "_objective", "_initial", "_offsets", "_inf_inert", "_inf_der",
                    "_placeholders", "_T", "_t0", "_method", "_meta", "_scale", "_catalog"]


def clone_field_completeness():
    c = ctx()
    repo = os.environ.get("VERIF_REPO", "/repo")
    tree = ast.parse(open(os.path.join(repo, "rockit", "stage.py")).read())
    cls = next(n for n in tree.body if isinstance(n, ast.ClassDef) and n.name == "Stage")
    init = next(f for f in cls.body if isinstance(f, ast.FunctionDef) and f.name == "__init__")
    clone = next(f for f in cls.body if isinstance(f, ast.FunctionDef) and f.name == "clone")
    created = set()
    for n in ast.walk(init):
        if isinstance(n, ast.Assign):
            for t in n.targets:
                if isinstance(t, ast.Attribute) and isinstance(t.value, ast.Name) and t.value.id == "self":
                    created.add(t.attr)
    transferred = set()
    for n in ast.walk(clone):
        if isinstance(n, ast.Assign):
            for t in n.targets:
                for s in ast.walk(t):
                    if isinstance(s, ast.Attribute) and isinstance(s.value, ast.Name) and s.value.id == "ret":
                        transferred.add(s.attr)
    for fld in SPEC_FIELDS_INIT:
        name = "stage:Stage.clone:ensures:transfers[%s]" % fld
        if fld not in created:
            c.ok(name, detail="field no longer created by __init__")
        elif fld in transferred:
            c.ok(name)
        else:
            c.fail(name, "specification field self.%s is created by Stage.__init__ but Stage.clone never assigns ret.%s" % (fld, fld))
    # exhaustiveness: every attribute __init__ creates is classified
    known = set(SPEC_FIELDS_INIT) | {"_master", "parent", "_var_original", "_var_augmented", "_t", "_stages", "_public_T", "_public_t0", "_tf",
                                     "_public_DT", "_public_DT_control", "_T_scale"}
    for a in sorted(created - known):
        c.fail("stage:Stage.__init__:classification[%s]" % a, "new attribute self.%s is not classified as specification / identity / transcription state" % a)
    c.ok("stage:Stage.__init__:classification", detail="%d attributes classified" % len(created))


def union_check(inst, master, parts, master_rows, master_obj, grids=False):
    """parts: list of (spec bound to its stage object, method)"""
    c = ctx()
    master._transcribed
    opti = master._augmented._method.opti
    emitted = nlp.emitted_rows(opti)
    expected = []
    J = master_obj
    for i, (spec, meth) in enumerate(parts):
        orc = Oracle(spec, meth).expected()
        for kind, r, tag in nlp.oracle_rows(orc):
            expected.append((kind, r, ("stage%d" % i,) + tag))
        J = J + orc.J
        spec._orc = orc
    for tag, kind, r in master_rows(parts):
        r = ca.MX(r)
        for j in range(r.numel()):
            expected.append((kind, r.e[j], ("master",) + tag + (j,)))
    before = len(c.obligations)
    name = "%s|stage:Stage._transcribe_recurse:ensures:disjoint-union" % inst
    if not grids:
        nlp.match_rows(name, emitted, expected)
    else:
        # stages whose time grid has its own variables: rows made of ONE stage's time symbols only are that stage's
        # grid-coupling rows; they must be equivalent to that stage's declared partition (as in the single-stage checks)
        import z3
        from . import bounded
        missing, extra = nlp.match_rows(name, emitted, expected, prove_extra=False)
        tns = []
        for spec, meth in parts:
            spec.opti = opti
            tns.append(bounded.time_names(spec, meth))
        foreign = []
        for k, r, org in extra:
            names = set() if ca.isnum(r) else {n for n in ca._consts(r) if n in ca._SYMS}
            if not names or not any(names <= tn for tn in tns):
                foreign.append((k, r, org))
        if foreign:
            c.obligations.append(nlp._ob(name + ":frame:nothing-else", "refuted", 0.0, "emitted rows that no declaration accounts for: " +
                                          "; ".join("%s %s" % (k, ca._short(r)) for k, r, _ in foreign[:3])))
        else:
            c.obligations.append(nlp._ob(name + ":frame:nothing-else", "discharged", 0.0, "%d emitted atomic rows, %d of them grid-coupling rows" % (len(emitted), len(extra))))
        for i, ((spec, meth), tn) in enumerate(zip(parts, tns)):
            coupling = [e for e in emitted if not ca.isnum(e[1]) and {n for n in ca._consts(e[1]) if n in ca._SYMS} and {n for n in ca._consts(e[1]) if n in ca._SYMS} <= tn]
            Rf = bounded.rows_formula(coupling)
            base = "%s|sampling_method:SamplingMethod.add_coupling_constraints[stage %d]" % (inst, i)
            c.prove(base + ":ensures:coupling-rows-imply-declared-partition", z3.Implies(Rf, bounded.grid_spec_formula(spec, meth, spec._orc)), detail="%d coupling rows" % len(coupling))
            c.prove(base + ":frame:coupling-rows-implied-by-declared-partition", z3.Implies(bounded.grid_spec_formula(spec, meth, spec._orc, all_bounds=True), Rf))
    nlp.prove_equal("%s|direct_method:OptiWrapper.add_objective:ensures:sum-of-stage-objectives" % inst, opti._f, J)


def two_stages(methods, free_second):
    from rockit import Ocp
    c = ctx()
    master = Ocp()
    v0 = master.variable()
    q0 = master.parameter()
    master.set_value(q0, unknown("q0_value", 1, 1))
    s1 = Spec(method=methods[0], N=2, M=1, degree=2, T=("fixed", 1.0), t0=("fixed", 0.0), states=[2], params={"": [1]}, variables={"control": [1]},
              ode=E("f", None, ("x", "u", "t", "p", "vc")), constraints=[Con(E("c1", 1, ("x", "u", "t")), "le", 1.0), Con(E("b1", 2, (("at", "t0", "x"),)), "eq", 0.0)],
              objective=[("integral", E("L1", 1, ("x", "u"))), ("at_tf", E("M1", 1, ("x", "T")))])
    s2 = Spec(method=methods[1], N=3, M=2, degree=2, T=("free", 1.0) if free_second else ("fixed", 2.0), t0=("fixed", 1.0), states=[1], controls=[1],
              ode=E("g", None, ("x", "u", "t")), constraints=[Con(E("c2", 1, ("x", "u")), "ge", 0.0, include_first=False)],
              objective=[("sum", E("S2", 1, ("x", "u"))), ("at_tf", E("M2", 1, ("x", "t")))])
    s1.build(parent=master)
    s2.build(parent=master)
    x1, x2 = s1.sym["x"][0], s2.sym["x"][0]
    link = ufun("link", 1, [s1.ocp.at_tf(x1), s2.ocp.at_t0(x2), v0, q0])
    master.subject_to(link == 0)
    master.add_objective(ufun("m0", 1, [v0, q0]))
    # a stage constraint that mentions the master's own variable AND parameter (resolved by the master's eval_top)
    s1.ocp.subject_to(ufun("cm", 1, [x1, v0, q0]) <= 4.0)
    master.solver("ipopt")
    inst = "C12/two-stages[%s+%s%s]" % (methods[0], methods[1], ",T2 free" if free_second else "")

    def master_rows(parts):
        o1, o2 = parts[0][0]._orc, parts[1][0]._orc
        mm = master._augmented._method
        V0, Q0 = ca.MX(mm.V), ca.MX(mm.P[0])
        rows = [(("link",), "eq", ufun("link", 1, [o1.X[-1], o2.X[0], V0, Q0]))]
        for j in range(len(o1.X)):
            rows.append((("stage-constraint-with-master-symbols", j), "le", ufun("cm", 1, [o1.X[j], V0, Q0]) - 4.0))
        return rows
    V0 = lambda: ca.MX(master._augmented._method.V)
    Q0 = lambda: ca.MX(master._augmented._method.P[0])
    # stage objects of the transcribed copy
    master._transcribed
    aug = master._augmented
    parts = [(s1.bound_to(aug._stages[0]), aug._stages[0]._method), (s2.bound_to(aug._stages[1]), aug._stages[1]._method)]
    union_check(inst, master, parts, master_rows, ufun("m0", 1, [V0(), Q0()]))
    # sampling / value of expressions that mention the master's variable and parameter
    e_s = ufun("sm", 1, [x1, v0, q0])
    t_, val = aug._stages[0].sample(e_s, grid="control") if False else s1.ocp.sample(e_s, grid="control")
    o1 = parts[0][0]._orc
    nlp.prove_equal(inst + "|stage:Stage.sample:ensures:master-symbols-in-stage-expression", val, ca.hcat([ufun("sm", 1, [o1.X[j], V0(), Q0()]) for j in range(len(o1.X))]))
    nlp.prove_equal(inst + "|stage:Stage.value:ensures:master-variable-and-parameter", master.value(ufun("vm", 1, [v0, q0])), ufun("vm", 1, [V0(), Q0()]))
    opti = master._augmented._method.opti
    got = ca.DM._raw(1, 1, [opti._pval[Q0().e[0].decl().name()]])
    nlp.prove_equal(inst + "|direct_method:DirectMethod.set_parameter:ensures:master-parameter-value", got, unknown("q0_value", 1, 1))
    # stage-local accessors refer to that stage only
    nlp.prove_equal(inst + "|stage:Stage.value:ensures:stage-T-is-own-horizon", master.value(s2.ocp.T), ca.MX(parts[1][1].T))
    nlp.prove_equal(inst + "|stage:Stage.value:ensures:stage-t0", master.value(s2.ocp.t0), ca.MX(parts[1][1].t0))


def same_shape_stages(m1, m2):
    """two stages with IDENTICAL shapes (states, controls, parameters, variables, quadratures, M, integrator) but different
    dynamics and integrands: each stage must be propagated with its OWN right-hand side and integrand"""
    from rockit import Ocp
    master = Ocp()
    mk = lambda meth, f, L, c_: Spec(method=meth, N=2, M=2, degree=2, T=("fixed", 1.0), t0=("fixed", 0.0), states=[2], controls=[1], params={"": [1]},
                                     ode=E(f, None, ("x", "u", "p")), constraints=[Con(E(c_, 1, ("x", "u")), "le", 1.0)], objective=[("integral", E(L, 1, ("x", "u")))])
    s1, s2 = mk(m1, "fA", "LA", "cA"), mk(m2, "fB", "LB", "cB")
    s1.build(parent=master)
    s2.build(parent=master)
    master.solver("ipopt")
    inst = "C12/same-shape-stages[%s+%s]" % (m1, m2)
    master._transcribed
    aug = master._augmented
    parts = [(s1.bound_to(aug._stages[0]), aug._stages[0]._method), (s2.bound_to(aug._stages[1]), aug._stages[1]._method)]
    union_check(inst, master, parts, lambda parts: [], ca.MX(0.0))


def native_clone_with_signal(method, order):
    """stages created from a template with a grid='bspline' variable equal directly declared ones -- on the real code (the
    b-spline pipeline inside a multi-stage clone is not modelled row by row): bounded native stand-in"""
    import json, os, subprocess
    c = ctx()
    VERIF = os.path.dirname(os.path.dirname(os.path.abspath(__file__)))
    repo = os.environ.get("VERIF_REPO", "/repo")
    env = dict(os.environ, PYTHONPATH=repo + os.pathsep + VERIF, PYTHONDONTWRITEBYTECODE="1")
    p = subprocess.run([os.environ.get("VERIF_NATIVE_PY", "/venv/bin/python"), os.path.join(VERIF, "replay", "run.py")], input=json.dumps(dict(harness="clone_signal_probe", method=method, order=order)),
                       capture_output=True, text=True, env=env, timeout=600, cwd=os.path.join(VERIF, "out"))
    res = json.loads(p.stdout.strip().splitlines()[-1]) if p.stdout.strip() else dict(status="error", detail=p.stderr[-300:])
    name = "stage:Stage.clone:ensures:template-with-b-spline-signal-equals-direct-declaration[%s,order=%d]" % (method, order)
    if res.get("status") == "not-reproduced":
        c.ok(name, detail=res.get("detail"), backend="enumerated-native")
    elif res.get("status") == "confirmed":
        c.fail(name, str(res.get("observed"))[:200])
    else:
        raise RuntimeError("native clone harness failed: %s" % str(res)[:300])


def generated_clones(i, prop="C12"):
    """a generated specification (contracts/randspec.py) declared ONCE as a template and instantiated twice: every clone
    owes the NLP exactly what the specification's own oracle demands (dynamics, constraints where declared incl. the
    include_first / include_last qualifiers, objective, horizon symbols of ITS stage), and keeps ITS OWN parameter values"""
    kw = gen_kw(i, prop)
    return clones_of(kw, "%s/R%03d-%s-two-clones" % (prop, i, kw["method"]))


def gen_kw(i, prop):
    """the i-th generated specification; under C10 / C12 with its generated guesses, all given to the TEMPLATE before cloning"""
    from . import randspec
    kw = randspec.make(i)
    if prop in ("C10", "C12"):
        ini, _ = randspec.make_initial(i, kw)
        kw = dict(kw, initial=ini, initial_after=0)
    return kw


def clones_of(kw, inst):
    from . import bounded
    c = ctx()
    master, tmpl, bs = spec_mod.build_clones(kw)
    master.solver("ipopt")
    master._transcribed
    aug = master._augmented
    parts = []
    for j, b in enumerate(bs):
        b.ocp = aug._stages[j]
        parts.append((b, aug._stages[j]._method))
    union_check(inst, master, parts, lambda parts: [], ca.MX(0.0), grids=True)
    opti = aug._method.opti
    for j, (sp, meth) in enumerate(parts):
        sp.opti = opti
        bounded.check_init(inst, sp, meth, opti, label="clone %d/" % j)     # the template's guesses (incl. T / t0) reach every clone
        clone_pvals(inst, j, sp, meth, opti)


def divergent_clones(kw, inst):
    """two stages created from one template; AFTER cloning, the second one is given dynamics of its own (with derivative scales
    of its own), one more constraint, one more objective term, one more guess and parameter values of its own
    (contracts/spec.py:build_clones).  The first clone owes exactly what the template's specification demands, the second
    what the amended specification demands: nothing declared on a clone may reach its sibling (or the template)."""
    from . import bounded
    c = ctx()
    master, tmpl, bs = spec_mod.build_clones(kw, divergent=True)
    master.solver("ipopt")
    master._transcribed
    aug = master._augmented
    parts = []
    for j, b in enumerate(bs):
        b.ocp = aug._stages[j]
        parts.append((b, aug._stages[j]._method))
    union_check(inst, master, parts, lambda parts: [], ca.MX(0.0), grids=True)
    opti = aug._method.opti
    for j, (sp, meth) in enumerate(parts):
        sp.opti = opti
        bounded.check_init(inst, sp, meth, opti, label="clone %d/" % j)
        clone_pvals(inst, j, sp, meth, opti)


def clone_pvals(inst, j, sp, meth, opti):
    for kind, lst in (("", meth.P), ("control", meth.P_control), ("control+", meth.P_control_plus)):
        for q, P in enumerate(lst):
            if (kind, q) not in sp.pvals:
                continue
            members = [P] if kind == "" else list(P)
            want = ca.DM(sp.pvals[(kind, q)])
            ncol = ca.MX(members[0]).shape[1]
            for k_, sym in enumerate(members):
                sym = ca.MX(sym)
                got = ca.DM._raw(sym.rows, sym.cols, [opti._pval.get(str(x)) for x in sym.e])
                nlp.prove_equal("%s|stage:Stage.clone:ensures:clone-%d-keeps-its-own-value[%s%d,member %d]" % (inst, j, kind or "global", q, k_), got,
                                want if kind == "" else want[:, k_ * ncol:(k_ + 1) * ncol])


def generated_two_stages(i, prop="C12"):
    """two generated specifications (contracts/randspec.py) as the two stages of one master OCP: the NLP is the disjoint
    union of what each stage's own oracle demands, the objective the sum"""
    from rockit import Ocp
    from . import randspec
    master = Ocp()
    s1, s2 = Spec(**randspec.make(2 * i)), Spec(**randspec.make(2 * i + 1))
    s1.build(parent=master)
    s2.build(parent=master)
    master.solver("ipopt")
    inst = "%s/R%03d-two-generated-stages[%s+%s]" % (prop, i, s1.method, s2.method)
    master._transcribed
    aug = master._augmented
    parts = [(s1.bound_to(aug._stages[0]), aug._stages[0]._method), (s2.bound_to(aug._stages[1]), aug._stages[1]._method)]
    union_check(inst, master, parts, lambda parts: [], ca.MX(0.0), grids=True)


def clones(method, objective_kind, ode_t=False):
    from rockit import Ocp, FreeTime
    c = ctx()
    obj = {"mayer": [("at_tf", E("Mf", 1, ("x", "T", "t0")))],
           "sum": [("sum", E("S", 1, ("x", "u")))],
           "integral": [("integral", E("L", 1, ("x", "u")))],
           "integral-t": [("integral", E("Lt", 1, ("x", "u", "t")))]}[objective_kind]
    tmpl = Spec(method=method, N=2, M=1, degree=2, T=("fixed", 1.0), t0=("fixed", 0.0), states=[2], params={"": [1]},
                ode=E("f", None, ("x", "u", "t", "p") if ode_t else ("x", "u", "p")),
                constraints=[Con(E("c1", 1, ("x", "u", "t", "T", "t0")), "le", 1.0), Con(E("b0", 2, (("at", "t0", "x"),)), "eq", 0.0),
                             Con(E("bf", 1, (("at", "tf", "x"), "p")), "le", 3.0),
                                 Con(E("ci", 1, ("x", "u", "p")), "le", 2.0, grid="integrator")],
                objective=obj, initial=[(("x", 0), ("unknown", "gx", 2, 1))])
    tmpl.build(template=True)
    template = tmpl.ocp
    if objective_kind == "integral" and not ode_t:
        # a user-declared quadrature state in the template (besides the one integral() creates)
        q = template.state(quad=True)
        template.set_der(q, ufun("qd", 1, [tmpl.sym["x"][0]]))
        template.add_objective(template.at_tf(q))
        tmpl.objective = list(tmpl.objective) + [("integral", E("qd", 1, ("x",)))]
    before = (len(template.states), len(template.controls), sum(len(v) for v in template._constraints.values()), len(template._placeholders), len(template._initial), id(template._objective))
    master = Ocp()
    c1 = master.stage(template, t0=0.0, T=2.0)
    c2 = master.stage(template, t0=2.0, T=FreeTime(1.5))
    # parameter values given per clone after cloning: each clone keeps its own, the template keeps its own
    p_sym = tmpl.sym[("p", "")][0]
    pv_t = template._param_vals[p_sym]
    pv1, pv2 = unknown("pv_clone1", 1, 1), unknown("pv_clone2", 1, 1)
    c1.set_value(p_sym, pv1)
    c2.set_value(p_sym, pv2)
    master.solver("ipopt")
    inst = "C12/clones[%s,%s%s]" % (method, objective_kind, ",time-varying-ode" if ode_t else "")
    master._transcribed
    aug = master._augmented
    parts = [(tmpl.bound_to(aug._stages[0], T=("fixed", 2.0), t0=("fixed", 0.0)), aug._stages[0]._method),
             (tmpl.bound_to(aug._stages[1], T=("free", 1.5), t0=("fixed", 2.0)), aug._stages[1]._method)]
    union_check(inst, master, parts, lambda parts: [], ca.MX(0.0))
    after = (len(template.states), len(template.controls), sum(len(v) for v in template._constraints.values()), len(template._placeholders), len(template._initial), id(template._objective))
    (c.ok if before == after else lambda n_, **k: c.fail(n_, "cloning/transcribing changed the template: %s -> %s" % (before, after)))(inst + "|stage:Stage.clone:frame:template-unchanged", backend="z3")
    opti = master._augmented._method.opti
    for i, want in enumerate((pv1, pv2)):
        P = ca.MX(aug._stages[i]._method.P[0])
        got = ca.DM._raw(P.rows, P.cols, [opti._pval[x.decl().name()] for x in P.e])
        nlp.prove_equal(inst + "|stage:Stage.clone:ensures:clone-%d-has-its-own-parameter-value" % (i + 1), got, want)
    nlp.prove_equal(inst + "|stage:Stage.clone:frame:template-parameter-value-unchanged", ca.DM(template._param_vals[p_sym]), ca.DM(pv_t))
    (c.ok if aug._stages[0]._method is not aug._stages[1]._method else lambda n_, **k: c.fail(n_, "clones share a method object"))(inst + "|stage:Stage.clone:ensures:own-method-object", backend="z3")


def guarded(fn, inst):
    """a specification the property covers must transcribe: an exception of the real code is a refuted obligation"""
    def run():
        c = ctx()
        try:
            fn()
        except Exception as e:
            import traceback
            tb = traceback.extract_tb(e.__traceback__)
            where = next((fr for fr in reversed(tb) if "/rockit/" in fr.filename), tb[-1])
            c.fail("%s|%s:%s:safety:no-exception-on-valid-specification" % (inst, where.filename.split("/rockit/")[-1].replace(".py", ""), where.name), "%s: %s" % (type(e).__name__, str(e)[:200]))
    return run


def generated_clone_tasks(tier, prop, select=None):
    from . import randspec
    out = []
    for i in range(90 if tier == "thorough" else 30):
        kw = randspec.make(i)
        if select and not select(kw):
            continue
        inst = "%s/R%03d-%s-two-clones" % (prop, i, kw["method"])
        out.append(Task(inst, guarded(lambda i=i: generated_clones(i, prop), inst), kind="bounded", bound=dict(generated=i, clones=2), replay=dict(harness="clones_of_probe", generated=i, prop=prop)))
    return out


def generated_divergent_tasks(tier, prop, select=None, quick=16, thorough=60):
    from . import randspec
    out = []
    for i in range(thorough if tier == "thorough" else quick):
        kw = randspec.make(i)
        if select and not select(kw):
            continue
        inst = "%s/R%03d-%s-divergent-clones" % (prop, i, kw["method"])
        out.append(Task(inst, guarded(lambda i=i, inst=inst: divergent_clones(gen_kw(i, prop), inst), inst), kind="bounded", bound=dict(generated=i, clones=2, second_clone="own dynamics, derivative scales, constraint, objective term, guess, parameter values"),
                        replay=dict(harness="clones_of_probe", generated=i, divergent=True, prop=prop)))
    return out


def tasks(tier):
    out = [Task("C12/clone-field-completeness", clone_field_completeness, kind="structural")]
    for ms in (("MS", "DC"), ("SS", "MS"), ("DC", "SS")):
        for free in (False, True):
            inst = "C12/two-stages[%s+%s%s]" % (ms[0], ms[1], ",T2 free" if free else "")
            out.append(Task(inst, guarded(lambda ms=ms, free=free: two_stages(ms, free), inst), kind="bounded", bound=dict(stages=ms, free_T_second=free)))
    for m, order in (("MS", 2), ("DC", 1)):
        out.append(Task("C12/clone-with-signal[%s,order=%d]" % (m, order), lambda m=m, order=order: native_clone_with_signal(m, order), kind="enumerated",
                        replay=dict(harness="clone_signal_probe", method=m, order=order), bound=dict(method=m, order=order, stages=2)))
    for m1, m2 in (("MS", "MS"), ("SS", "SS"), ("MS", "SS"), ("DC", "DC")):
        inst = "C12/same-shape-stages[%s+%s]" % (m1, m2)
        out.append(Task(inst, guarded(lambda m1=m1, m2=m2: same_shape_stages(m1, m2), inst), kind="bounded", bound=dict(stages=[m1, m2], shapes="identical", dynamics="different"),
                        replay=dict(harness="two_stage_probe", same_shape=[m1, m2])))
    # horizon given by the stage's OWN parameter / variable symbol, shared by all clones of the template, used in expressions
    for m in ("MS", "SS", "DC"):
        for Tk, t0k in ((("param",), ("param",)), (("param",), ("fixed", 0.5)), (("free", 1.5), ("param",))):
            inst = "C12/clones-own-horizon-symbol[%s,T=%s,t0=%s]" % (m, Tk[0], t0k[0])
            kw = spec_mod.own_horizon_kw(m, Tk, t0k)
            out.append(Task(inst, guarded(lambda kw=kw, inst=inst: clones_of(dict(kw), inst), inst), kind="bounded", bound=dict(method=m, T=Tk[0], t0=t0k[0], clones=2),
                            replay=dict(harness="clones_of_probe", method=m, T=list(Tk), t0=list(t0k))))
    out += generated_clone_tasks(tier, "C12")
    out += generated_divergent_tasks(tier, "C12")
    for i in range(60 if tier == "thorough" else 20):
        inst = "C12/R%03d-two-generated-stages" % i
        out.append(Task(inst, guarded(lambda i=i: generated_two_stages(i), inst), kind="bounded", bound=dict(generated=[2 * i, 2 * i + 1]), replay=dict(harness="two_stage_probe", index=i)))
    for m in ("MS", "SS", "DC"):
        for ok, ode_t in (("mayer", False), ("sum", False), ("integral", False), ("integral-t", False), ("mayer", True)):
            inst = "C12/clones[%s,%s%s]" % (m, ok, ",time-varying-ode" if ode_t else "")
            out.append(Task(inst, guarded(lambda m=m, ok=ok, ode_t=ode_t: clones(m, ok, ode_t), inst), kind="bounded", bound=dict(method=m, objective=ok, clones=2, ode_depends_on_t=ode_t),
                            replay=dict(harness="clone_probe", method=m, objective=ok, ode_t=ode_t)))
    return out
