"""
Generated instance family ("R"): specifications drawn from the whole feature space of the Spec language with a fixed
pseudo-random sequence (stable labels R000, R001, ...; the i-th specification never changes unless this file does).
Purpose: feature COMBINATIONS the hand-written catalogues do not enumerate (every kind of symbol x every grid x every
constraint placement x shifted operands x DAE x scales x free / parametric horizons ...).  Back-end agnostic, so every
generated instance is replayed natively like the catalogue instances.  All obligations on them are *bounded*.
"""
import random

from .spec import Spec, E, Con

GRIDS = [
    dict(kind="uniform"), dict(kind="uniform", min=0.1, max=2.0), dict(kind="uniform", max=2.0),
    dict(kind="uniform", localize_T=True), dict(kind="uniform", localize_t0=True), dict(kind="uniform", localize_T=True, localize_t0=True, min=0.05),
    dict(kind="geometric", growth=2.0), dict(kind="geometric", growth=1.5, local=True), dict(kind="geometric", growth=2.0, localize_T=True),
    dict(kind="geometric", growth=2.0, local=True, min=0.05),
    dict(kind="free"), dict(kind="free", max=1.0), dict(kind="free", localize_t0=True, min=0.1),
]


def _sizes(r, choices):
    return list(r.choice(choices))


def make(i, prop=None):
    """the i-th generated specification (as keyword arguments of Spec)"""
    r = random.Random("rockit-spec-%d" % i)
    method = r.choice(["MS", "MS", "SS", "DC", "DC"])
    kw = dict(method=method, N=r.choice([1, 2, 2, 3]), M=r.choice([1, 2, 2, 3]))
    if method == "DC":
        kw.update(degree=r.choice([1, 2, 2, 3]), scheme=r.choice(["radau", "radau", "legendre"]))
    else:
        kw.update(intg=r.choice(["rk", "rk", "expl_euler"]))
    grid = dict(r.choice(GRIDS))
    needs_free_T = grid["kind"] == "free" or grid.get("localize_T") or grid.get("localize_t0")
    kw["grid"] = grid
    kw["T"] = r.choice([("free", 1.5), ("free", "unknown")] if needs_free_T else [("free", 1.5), ("free", "unknown"), ("fixed", 2.0), ("unknown",), ("unknown",), ("param",)])
    kw["t0"] = r.choice([("fixed", 0.0), ("fixed", 0.5), ("free", 0.25), ("free", -0.75), ("free", "unknown"), ("unknown",), ("param",)])
    dae = method == "DC" and r.random() < 0.35
    kw["states"] = _sizes(r, [[1], [2], [1, 2], [2, 1]])
    kw["controls"] = _sizes(r, [[1], [1], [2], [1, 1], []])
    kw["algebraics"] = _sizes(r, [[1], [2]]) if dae else []
    params, variables = {}, {}
    for kind in ("", "control", "control+"):
        if r.random() < 0.6:
            params[kind] = _sizes(r, [[1], [2], [1, 1], [(2, 2)], [1, (1, 2)]])
        if r.random() < 0.6:
            variables[kind] = _sizes(r, [[1], [2], [1, 1]])
    kw["params"], kw["variables"] = params, variables
    scales = {}
    for key in ("x", "u", "z", "v", "vcontrol", "vcontrol+", "der"):
        if r.random() < 0.3:
            scales[key] = "unknown"
    kw["scales"] = scales
    have = {"x": True, "u": bool(kw["controls"]), "z": dae, "t": True, "p": "" in params, "pc": "control" in params, "pcp": "control+" in params,
            "v": "" in variables, "vc": "control" in variables, "vcp": "control+" in variables}
    signal = [a for a in ("x", "u", "z", "t", "pc", "pcp", "vc", "vcp") if have[a]]
    glob = [a for a in ("p", "v") if have[a]]
    # the value of an algebraic variable at a node / integrator point is an interpolation with the Lagrange weights of the
    # collocation times: exact only for rational tables (Radau degree <= 2); for the other tables z is used at the
    # collocation times only (dynamics, algebraic equations, integrator_roots constraints)
    z_between = dae and kw.get("scheme") == "radau" and kw.get("degree", 2) <= 2
    signal_nodes = [a for a in signal if a != "z" or z_between]

    def pick(pool, must=(), pmin=1):
        pool = [a for a in pool if a not in must]
        k = r.randint(min(pmin, len(pool)), len(pool)) if pool else 0
        return tuple(must) + tuple(sorted(r.sample(pool, k), key=lambda a: (pool.index(a))))

    kw["ode"] = E("f", None, pick(signal + glob, must=("x",)))
    if dae:
        kw["alg"] = E("g", None, pick(["x", "u", "t"] + glob, must=("z",)) if have["u"] else pick(["x", "t"] + glob, must=("z",)))
    discrete = method != "DC" and not dae and r.random() < 0.1
    if discrete:
        kw["discrete"] = True
        kw["ode"] = E("g", None, pick([a for a in signal if a != "z"] + glob + ["DT", "DT_control"], must=("x",)))
    decision = {"x", "u", "z", "v", "vc", "vcp"}

    def bears_decision(deps):
        """a constraint without any decision variable is ill-posed (C20); the generated ones always contain one"""
        for d_ in deps:
            if d_ in decision or (isinstance(d_, tuple) and d_[-1 if d_[0] == "at" else 1] in decision):
                return True
        return False
    cons = []
    for ci in range(r.randint(0, 5)):
        place = r.choice(["control", "control", "integrator", "point", "roots" if method == "DC" else "control", "global"])
        kind = r.choice(["le", "le", "ge", "eq", "box"])
        ckw = dict(scale=r.choice([1, 1, 4.0, "unknown"]))
        if kind == "box":
            ckw["lhs"] = -1.0
        nout = r.choice([1, 1, 2])
        name = "c%d" % ci
        if place == "control":
            deps = list(pick(signal_nodes + glob + ["T", "DT_control"], pmin=1))
            if r.random() < 0.4:
                base = r.choice([a for a in signal_nodes if a != "t"])
                deps.append(("off", base, r.choice([1, 1, -1, 2, -2])))
            if not bears_decision(deps):
                deps.append("x")
            if not any(d in signal or (isinstance(d, tuple) and d[0] == "off") for d in deps):
                deps.append("x")          # otherwise it is a point constraint (generated separately)
            cons.append(Con(E(name, nout, tuple(deps)), kind, 1.0 + ci, include_first=r.random() < 0.75, include_last=r.random() < 0.75, **ckw))
        elif place == "integrator":
            deps = list(pick(signal_nodes + glob + ["DT"], pmin=1))
            if not bears_decision(deps):
                deps.append("x")
            cons.append(Con(E(name, nout, tuple(deps)), kind, 1.0 + ci, grid="integrator", include_first=r.random() < 0.75, include_last=r.random() < 0.75, **ckw))
        elif place == "roots":
            deps = list(pick([a for a in signal] + glob, pmin=1))
            if not bears_decision(deps):
                deps.append("x")
            cons.append(Con(E(name, nout, tuple(deps)), kind, 1.0 + ci, grid="integrator_roots", **ckw))
        elif place == "point":
            pool = [("at", w, a) for w in ("t0", "tf") for a in signal_nodes if a != "u" or w == "t0"]
            deps = tuple(r.sample(pool, r.randint(1, min(3, len(pool))))) + tuple(r.sample(glob + ["T", "t0"], r.randint(0, 1)))
            if not bears_decision(deps):
                deps = (("at", "tf", "x"),) + deps
            cons.append(Con(E(name, nout, deps), kind, 1.0 + ci, **ckw))
        else:
            if have["v"]:          # a constraint without decision variables is ill-posed (C20), so a global variable is required
                cons.append(Con(E(name, 1, tuple(glob) + (("T",) if r.random() < 0.5 else ())), "le", 5.0 + ci))
    kw["constraints"] = cons
    obj = []
    for oi in range(r.randint(0, 4)):
        kind = r.choice(["at_tf", "at_t0", "sum", "sum+", "integral", "integral", "value", "integral-control"])
        name = "o%d" % oi
        if kind == "at_tf":
            obj.append(("at_tf", E(name, 1, pick([a for a in signal_nodes if a != "u"] + glob + ["T", "t0"], must=("x",), pmin=0))))
        elif kind == "at_t0":
            obj.append(("at_t0", E(name, 1, pick(signal_nodes + glob, must=("x",), pmin=0))))
        elif kind in ("sum", "sum+"):
            deps = pick(signal_nodes + glob, must=("x",), pmin=0)
            obj.append(("sum", E(name, 1, deps), dict(include_last=True)) if kind == "sum+" else ("sum", E(name, 1, deps)))
        elif kind == "integral" and not discrete:
            obj.append(("integral", E(name, 1, pick(signal + glob, must=("x",), pmin=0))))
        elif kind == "integral-control":
            obj.append(("integral", E(name, 1, pick([a for a in signal if a != "z"] + glob, must=("x",), pmin=0)), dict(grid="control")))
        elif kind == "value" and glob:
            obj.append(("value", E(name, 1, tuple(glob))))
    kw["objective"] = obj
    # later additions draw from their own sequence, so that the specifications generated so far keep their content
    r2 = random.Random("rockit-spec-extra-%d" % i)
    kw["der_order"] = r2.choice(["declared", "reversed"])
    if not discrete and r2.random() < 0.3:
        # higher-order controls (ocp.control(order=k)): helper states + helper control, atom 'w'
        kw["hoc"] = r2.choice([[(1, 1)], [(1, 2)], [(2, 1)], [(1, 1), (1, 2)]])
        kw["ode"] = E(kw["ode"].name, None, tuple(kw["ode"].deps) + ("w",))
        if r2.random() < 0.5:
            kw["scales"] = dict(kw["scales"], w="unknown")
        off_w = (("off", "w", r2.choice([1, -1])),) if r2.random() < 0.5 else ()
        rel_w, grid_w, last_w = r2.choice(["le", "ge"]), r2.choice([None, None, "integrator"]), r2.random() < 0.7
        if off_w and grid_w == "integrator":
            grid_w = None          # shifted operands exist on the control grid only (rockit rejects them on the integrator grid)
        kw["constraints"] = list(kw["constraints"]) + [Con(E("cw", 1, ("w", "x") + off_w), rel_w, 2.5, grid=grid_w, include_last=last_w)]
        if r2.random() < 0.5:
            kw["objective"] = list(kw["objective"]) + [(r2.choice(["sum", "at_tf"]), E("ow", 1, ("w", "x")))]
    return kw


def family(count, start=0):
    out = []
    for i in range(start, start + count):
        kw = make(i)
        out.append(("R%03d-%s" % (i, kw["method"]), (lambda kw=kw: Spec(**_copy(kw)))))
    return out


def _copy(kw):
    import copy
    return copy.deepcopy(kw)


def make_initial(i, kw):
    """guesses for the i-th specification: (initial list, initial_after) for Spec; horizon guesses at any position"""
    r = random.Random("rockit-guess-%d" % i)
    N = kw["N"]
    out = []
    def forms(tag, n, node, signal):
        f = [None, ("unknown", "g_%s" % tag, n, 1), ("unknown", "g_%s" % tag, n, 1)]
        if signal:
            f.append(E("ge_%s" % tag, n, ("t",)))
            f.append(("unknown", "a_%s" % tag, n, N))
            if node:
                f.append(("unknown", "b_%s" % tag, n, N + 1))
        return f
    targets = []
    for j, n in enumerate(kw["states"]):
        targets.append((("x", j), forms("x%d" % j, n, True, True)))
    for j, n in enumerate(kw["controls"]):
        targets.append((("u", j), forms("u%d" % j, n, False, True)))
    if kw["method"] == "DC":
        for j, n in enumerate(kw["algebraics"]):
            targets.append((("z", j), [None, ("unknown", "g_z%d" % j, n, 1), E("ge_z%d" % j, n, ("t",))]))
    for j, n in enumerate(kw["variables"].get("", [])):
        targets.append(((("v", ""), j), forms("v%d" % j, n, False, False)))
    for j, n in enumerate(kw["variables"].get("control", [])):
        targets.append(((("v", "control"), j), forms("vc%d" % j, n, False, True)))
    for j, n in enumerate(kw["variables"].get("control+", [])):
        targets.append(((("v", "control+"), j), forms("vcp%d" % j, n, True, True)))
    r.shuffle(targets)
    for tgt, f in targets:
        v = r.choice(f)
        if v is not None:
            out.append((tgt, v))
    # a second guess for one symbol: the last call wins
    if out and r.random() < 0.4:
        tgt, f = r.choice(targets)
        v = r.choice([x for x in f if x is not None])
        if isinstance(v, tuple):
            v = (v[0], v[1] + "_2") + v[2:]
        elif isinstance(v, E):
            v = E(v.name + "_2", v.nout, v.deps)
        out.append((tgt, v))
    n_time = 0
    if kw["t0"][0] == "free" and r.random() < 0.6:
        out.insert(r.randint(0, len(out)), ("t0", ("unknown", "g_t0", 1, 1))); n_time += 1
    if kw["T"][0] == "free" and r.random() < 0.6:
        out.insert(r.randint(0, len(out)), ("T", ("unknown", "g_T", 1, 1, True))); n_time += 1
    after = r.choice([0, 0, "all", n_time, min(len(out), 1 + n_time)])
    return out, after


def make_late(i, kw):
    """history for the i-th specification: which declarations happen only after a first transcription was queried"""
    r = random.Random("rockit-history-%d" % i)
    late = {}
    if kw["constraints"] and r.random() < 0.7:
        late["constraints"] = r.randint(1, len(kw["constraints"]))
    if kw["objective"] and r.random() < 0.6:
        late["objective"] = r.randint(1, len(kw["objective"]))
    if (kw["params"] or kw["T"][0] == "param") and r.random() < 0.6:
        late["pvals"] = True
    if r.random() < 0.3:
        late["method"] = True
    if r.random() < 0.4:
        late["query"] = True
    if not late:
        late["method"] = True
    return late


FAULTS = ["missing-der", "missing-pval", "DT-in-ode", "foreign-symbol-in-ode", "unknown-grid", "foreign-symbol-in-constraint", "foreign-symbol-in-objective",
          "signal-objective", "vector-objective", "set_value-on-state", "set_value-on-variable", "set_initial-on-parameter", "set_initial-on-unknown", "constant-false",
          "parameter-only-constraint", "roots-with-shooting", "der-of-control", "algebraic-with-explicit-scheme"]


def make_fault(i, kw):
    """one fault of the C20 catalogue, applicable to the i-th specification, at a generated position; returns (kw', fault)"""
    r = random.Random("rockit-fault-%d" % i)
    n_par = sum(len(kw["params"].get(k, [])) for k in ("", "control", "control+"))
    ok = []
    for f in FAULTS:
        if f == "missing-pval" and not n_par: continue
        if f == "set_initial-on-parameter" and not n_par: continue
        if f == "set_value-on-variable" and not any(kw["variables"].get(k) for k in ("", "control", "control+")): continue
        if f == "parameter-only-constraint" and not kw["params"].get(""): continue
        if f == "DT-in-ode" and kw.get("discrete"): continue
        if f == "roots-with-shooting" and kw["method"] == "DC": continue
        if f == "der-of-control" and not kw["controls"]: continue
        if f == "algebraic-with-explicit-scheme" and (kw["method"] == "DC" or kw.get("discrete")): continue
        ok.append(f)
    f = ok[i % len(ok)] if i % 3 else r.choice(ok)
    kw = dict(kw)
    if f == "algebraic-with-explicit-scheme":
        kw["algebraics"] = [1]
        kw["ode"] = E("f", None, tuple(kw["ode"].deps) + ("z",))
        kw["alg"] = E("g", None, ("z", "x"))
        return kw, None
    return kw, (f, r.randint(0, 5))
