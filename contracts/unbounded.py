"""
Unbounded contracts (symbolic number of control intervals N, symbolic interval index k) on the
real transcription functions.  Pre-states are representation invariants established by
add_variables/add_parameter (their own contracts), built on REAL rockit objects; the function
under contract is the real source with its `for` loops instrumented (vc.loops).
"""
import z3
import casadi as ca

from vc.core import ctx, SymInt, SymBool, fresh_int, unwrap_int, Undecided
from vc.symlist import SymList
from vc import loops, contract
from .backend import ufun, unknown
from .oracle import RK4, EULER, erk_step


class Pre:
    """a real Ocp + method object in the state add_variables/add_parameter leave them in,
    for a symbolic number N of control intervals"""

    def __init__(self, method="MS", M=2, intg="rk", nx=2, nu=1, np_=1, npc=1, npcp=1, nv=1, nvc=1, nvcp=1,
                 scaled=True, time_dep=True):
        import rockit
        from rockit import Ocp, MultipleShooting, SingleShooting
        from rockit.direct_method import OptiWrapper
        from rockit.casadi_helpers import HashOrderedDict
        import rockit.sampling_method as sm, rockit.multiple_shooting as ms, rockit.single_shooting as ss, rockit.stage as st
        loops.install_builtins(sm, ms, ss, st)
        contract.setup_loops()
        c = ctx()
        self.N = N = fresh_int("N")
        c.assume((N >= 1).z)
        self.M = M
        self.T = unknown("horizon_T", positive=True)
        self.t0 = unknown("horizon_t0")
        ocp = self.ocp = Ocp(T=self.T, t0=self.t0)
        sx = unknown("scale_x", nx, 1, positive=True) if scaled else 1
        su = unknown("scale_u", nu, 1, positive=True) if scaled and nu else 1
        self.x = ocp.state(nx, scale=sx)
        self.u = ocp.control(nu, scale=su) if nu else None
        self.p = ocp.parameter(np_) if np_ else None
        self.pc = ocp.parameter(npc, grid="control") if npc else None
        self.pcp = ocp.parameter(npcp, grid="control", include_last=True) if npcp else None
        self.v = ocp.variable(nv) if nv else None
        self.vc = ocp.variable(nvc, grid="control") if nvc else None
        self.vcp = ocp.variable(nvcp, grid="control", include_last=True) if nvcp else None
        self.sym_atoms = dict(x=self.x, u=self.u, t=ocp.t if time_dep else None, p=self.p, pc=self.pc, pcp=self.pcp, v=self.v, vc=self.vc, vcp=self.vcp)
        self.ode_deps = [a for a in ("x", "u", "t", "p", "pc", "pcp", "v", "vc", "vcp") if self.sym_atoms[a] is not None]
        ocp.set_der(self.x, ufun("f", nx, [self.sym_atoms[a] for a in self.ode_deps]))
        Meth = dict(MS=MultipleShooting, SS=SingleShooting)[method]
        meth = self.meth = Meth(N=N, M=M, intg=intg)
        ocp._method = meth
        opti = self.opti = OptiWrapper(ocp)
        meth.opti = opti
        contract.use_opti(opti)
        # ---- representation invariant (established by add_parameter / add_variables) -----------
        self.scale_x = ocp._scale_x
        Xw = opti.family("X", nx)
        self.Xf = lambda k: ca.MX(self.scale_x) * Xw(k)
        if method == "MS":
            meth.X = SymList(N + 1, self.Xf, "X")
        else:
            meth.X = SymList(N + 1, lambda k: self.Xf(0) if k == 0 else None, "X")
        if nu:
            Uw = opti.family("U", nu)
            self.Uf = lambda k: ca.MX(ocp._scale_u) * Uw(k)
        else:
            self.Uf = lambda k: ca.MX(0, 1)
        meth.U = SymList(N, self.Uf, "U")
        meth.Q = SymList(N + 1, lambda k: ca.DM.zeros(0) if k == 0 else None, "Q")
        meth.Z0 = SymList(N, lambda k: ca.MX(0, 1), "Z0") if method == "MS" else SymList(N, lambda k: ca.MX(0, 1) if k == 0 else None, "Z0")
        meth.P = [opti.parameter(np_, 1)] if np_ else []
        self.Pcf = opti.family("Pc", npc, role="p") if npc else None
        self.Pcpf = opti.family("Pcp", npcp, role="p") if npcp else None
        meth.P_control = [SymList(N, self.Pcf, "P_control")] if npc else []
        meth.P_control_plus = [SymList(N + 1, self.Pcpf, "P_control_plus")] if npcp else []
        meth.V = opti.variable(nv, 1) if nv else ca.MX(0, 1)
        self.Vcf = opti.family("Vc", nvc) if nvc else None
        self.Vcpf = opti.family("Vcp", nvcp) if nvcp else None
        meth.V_control = [SymList(N, self.Vcf, "V_control")] if nvc else []
        meth.V_control_plus = [SymList(N + 1, self.Vcpf, "V_control_plus")] if nvcp else []
        meth.V_states = []
        meth.T, meth.t0 = ca.MX(self.T), ca.MX(self.t0)
        meth.t0_local = SymList(N + 1, lambda k: None, "t0_local")
        meth.T_local = SymList(N, lambda k: None, "T_local")
        # abstract strictly-structured grid: node times tg(k); C06 says what they are
        tg = z3.Function("tg", z3.IntSort(), z3.RealSort())
        self.tg = lambda k: tg(k.z if isinstance(k, SymInt) else z3.IntVal(int(k)))
        meth.control_grid = ca.LVec(N + 1, lambda k: self.tg(k))

        def igrid(k):
            a, b = self.tg(k), self.tg(unwrap_int(k + 1))
            pts = [a if i == 0 else a + z3.RealVal(i) * ((b - a) / z3.RealVal(M)) for i in range(M)]
            if k == N - 1:
                pts.append(b)
            return ca.MX._raw(len(pts), 1, pts)
        meth.integrator_grid = SymList(N, igrid, "integrator_grid")

    # -- spec side ----------------------------------------------------------------------------
    def env(self, k, node=None):
        """ingredient values on control interval k (per-interval quantities) / at node `node`"""
        j = k if node is None else node
        d = dict(p=self.meth.P[0] if self.meth.P else None,
                 pc=self.Pcf(k) if self.Pcf else None,
                 pcp=self.Pcpf(j) if self.Pcpf else None,
                 v=self.meth.V if ca.MX(self.meth.V).numel() else None,
                 vc=self.Vcf(k) if self.Vcf else None,
                 vcp=self.Vcpf(j) if self.Vcpf else None,
                 u=self.Uf(k) if self.u is not None else None)
        return d

    def rhs(self, d):
        return ufun("f", self.x.numel(), [d[a] for a in self.ode_deps])

    def propagate(self, k, x0, intg="rk"):
        """oracle: M steps of the scheme over interval k (textbook tableau, contracts.oracle)"""
        tab = RK4 if intg == "rk" else EULER
        t0 = ca.MX._raw(1, 1, [self.tg(k)])
        t1 = ca.MX._raw(1, 1, [self.tg(unwrap_int(k + 1))])
        h = (t1 - t0) / self.M
        base = self.env(k)

        def f(t, x):
            d = dict(base)
            d["x"], d["t"] = x, t
            return self.rhs(d), None
        xs = [x0]
        for i in range(self.M):
            t = t0 + i * h if i else t0
            xn, _, _, _ = erk_step(tab, f, xs[-1], t, h)
            xs.append(xn)
        return xs


class PreDC(Pre):
    """pre-state of DirectCollocation.add_constraints (what add_variables / transcribe establish), symbolic N"""

    def __init__(self, M=2, degree=2, scheme="radau", **kw):
        import rockit
        from rockit import Ocp, DirectCollocation
        from rockit.direct_method import OptiWrapper
        import rockit.sampling_method as sm, rockit.direct_collocation as dcm, rockit.stage as st
        loops.install_builtins(sm, dcm, st)
        contract.setup_loops()
        c = ctx()
        nx, nu, np_, npc, npcp, nv, nvc, nvcp = 2, 1, 1, 1, 1, 1, 1, 1
        self.N = N = fresh_int("N")
        c.assume((N >= 1).z)
        self.M, self.degree = M, degree
        self.T = unknown("horizon_T", positive=True)
        self.t0 = unknown("horizon_t0")
        ocp = self.ocp = Ocp(T=self.T, t0=self.t0)
        sx = unknown("scale_x", nx, 1, positive=True)
        su = unknown("scale_u", nu, 1, positive=True)
        self.x = ocp.state(nx, scale=sx)
        self.u = ocp.control(nu, scale=su)
        self.p = ocp.parameter(np_)
        self.pc = ocp.parameter(npc, grid="control")
        self.pcp = ocp.parameter(npcp, grid="control", include_last=True)
        self.v = ocp.variable(nv)
        self.vc = ocp.variable(nvc, grid="control")
        self.vcp = ocp.variable(nvcp, grid="control", include_last=True)
        self.sym_atoms = dict(x=self.x, u=self.u, t=ocp.t, p=self.p, pc=self.pc, pcp=self.pcp, v=self.v, vc=self.vc, vcp=self.vcp)
        self.ode_deps = ["x", "u", "t", "p", "pc", "pcp", "v", "vc", "vcp"]
        sder = unknown("scale_der", nx, 1, positive=True)
        ocp.set_der(self.x, ufun("f", nx, [self.sym_atoms[a] for a in self.ode_deps]), scale=sder)
        meth = self.meth = DirectCollocation(N=N, M=M, degree=degree, scheme=scheme)
        ocp._method = meth
        opti = self.opti = OptiWrapper(ocp)
        meth.opti = opti
        contract.use_opti(opti)
        self.scale_x = ocp._scale_x
        self.scale_der = ocp._scale_der_x
        Xw = opti.family("X", nx)
        self.Xf = lambda k: ca.MX(self.scale_x) * Xw(k)
        meth.X = SymList(N + 1, self.Xf, "X")
        Uw = opti.family("U", nu)
        self.Uf = lambda k: ca.MX(ocp._scale_u) * Uw(k)
        meth.U = SymList(N, self.Uf, "U")
        meth.Q = SymList(N + 1, lambda k: ca.DM.zeros(0) if k == 0 else None, "Q")
        # helper states: start state of every integration interval, collocation states
        Xs = [None] + [opti.family("Xs%d" % i, nx) for i in range(1, M)]
        Xcw = [opti.family("Xc%d" % i, nx * degree) for i in range(M)]
        sxd = ca.repmat(ca.MX(self.scale_x), 1, degree)

        def Xc_at(k):
            out = []
            for i in range(M):
                x0 = self.Xf(k) if i == 0 else ca.MX(self.scale_x) * Xs[i](k)
                xc = sxd * ca.reshape(Xcw[i](k), nx, degree)
                out.append(ca.horzcat(x0, xc))
            return out
        self.Xc_at = Xc_at
        meth.Xc = SymList(N, Xc_at, "Xc")
        meth.Zc = SymList(N, lambda k: [ca.MX(0, degree) for i in range(M)], "Zc")
        meth.xr = SymList(N, lambda k: [Xc_at(k)[i][:, 1:] for i in range(M)], "xr")
        meth.zr = SymList(N, lambda k: [ca.MX(0, degree) for i in range(M)], "zr")
        meth.P = [opti.parameter(np_, 1)]
        self.Pcf = opti.family("Pc", npc, role="p")
        self.Pcpf = opti.family("Pcp", npcp, role="p")
        meth.P_control = [SymList(N, self.Pcf, "P_control")]
        meth.P_control_plus = [SymList(N + 1, self.Pcpf, "P_control_plus")]
        meth.V = opti.variable(nv, 1)
        self.Vcf = opti.family("Vc", nvc)
        self.Vcpf = opti.family("Vcp", nvcp)
        meth.V_control = [SymList(N, self.Vcf, "V_control")]
        meth.V_control_plus = [SymList(N + 1, self.Vcpf, "V_control_plus")]
        meth.V_states = []
        meth.T, meth.t0 = ca.MX(self.T), ca.MX(self.t0)
        meth.t0_local = SymList(N + 1, lambda k: None, "t0_local")
        meth.T_local = SymList(N, lambda k: None, "T_local")
        tg = z3.Function("tg", z3.IntSort(), z3.RealSort())
        self.tg = lambda k: tg(k.z if isinstance(k, SymInt) else z3.IntVal(int(k)))
        meth.control_grid = ca.LVec(N + 1, lambda k: self.tg(k))

        def igrid(k):
            a, b = self.tg(k), self.tg(unwrap_int(k + 1))
            pts = [a if i == 0 else a + z3.RealVal(i) * ((b - a) / z3.RealVal(M)) for i in range(M)]
            if k == N - 1:
                pts.append(b)
            return ca.MX._raw(len(pts), 1, pts)
        meth.integrator_grid = SymList(N, igrid, "integrator_grid")
        for k_ in ():
            pass
