"""
C04 (unbounded part): the placement obligations of the add_constraints contracts of the three methods
(contracts/c01.py, contracts/c02.py) -- for every N >= 1 and every interval k, with symbolic
include_first / include_last flags: one instance per declared grid point (control nodes, integrator
points, collocation roots), boundary constraints once, the final node after the loop, and nothing else
(per-iteration emission equality, so a duplicated or extra emission fails).
Shifted operands (offset / next / prev) are covered by the bounded tier only.
"""
from . import c01, c02


def tasks(tier):
    out = []
    for t in c01.tasks(tier):
        t.name = t.name.replace("C01/", "C04/")
        out.append(t)
    for t in c02.tasks(tier):
        t.name = t.name.replace("C02/", "C04/")
        out.append(t)
    return out
