"""
C17: B-spline signals are exact splines of the model (spline kernels; SplineMethod itself is out of reach:
networkx is not installed, so the method cannot even be imported here -- see DESIGN.md).

enumerated tasks (real micro_spline code on the casadi model, exact rational arithmetic):
  * eval_on_knots(xi, d, ...) basis matrices equal an independent Cox-de Boor evaluation on the clamped
    knot vector, at the knots and at sub-grid points, for d in 0..4, N in 1..5, uniform and non-uniform
    knots, several sub-grids of equal size but different positions (so a result must depend on the
    positions, not only on the count);
  * bspline_derivative(c, xi, d) with SYMBOLIC coefficients: out[:, i] = d (c[:, i+1]-c[:, i]) / (K[i+d+1]-K[i+1]).
bounded tasks (real pipeline on the model):
  * a grid='bspline' variable/parameter of order d: its control-grid and refined samples are
    coefficients times the Cox-de Boor basis at the sampled (normalised) times; der() of it is the analytic
    derivative divided by T; coefficient count N+d.
"""
from fractions import Fraction as Fr
import itertools

import casadi as ca

from vc.core import ctx
from vc.runner import Task
from . import nlp
from .spec import Spec, E, Con
from .backend import ufun, unknown


def clamped(xi, d):
    return [xi[0]] * d + list(xi) + [xi[-1]] * d


def cox_de_boor(K, d, x, last=False):
    """values of all B-splines N_{j,d}(x), j = 0..len(K)-d-2, by the textbook recursion (exact rationals)"""
    n0 = len(K) - 1
    N = [Fr(0)] * n0
    # degree 0: indicator of [K_j, K_{j+1}), the last non-empty interval closed at the right end
    idx = None
    for j in range(n0):
        if K[j] <= x < K[j + 1]:
            idx = j
    if idx is None and x == K[-1]:
        idx = max(j for j in range(n0) if K[j] < K[j + 1])
    N[idx] = Fr(1)
    for e in range(1, d + 1):
        M = [Fr(0)] * (n0 - e)
        for j in range(n0 - e):
            v = Fr(0)
            if K[j + e] != K[j]:
                v += (x - K[j]) / (K[j + e] - K[j]) * N[j]
            if K[j + e + 1] != K[j + 1]:
                v += (K[j + e + 1] - x) / (K[j + e + 1] - K[j + 1]) * N[j + 1]
            M[j] = v
        N = M
    return N


def knot_sets(N):
    uni = [Fr(k, N) for k in range(N + 1)]
    geo = [Fr(0)]
    for k in range(N):
        geo.append(geo[-1] + Fr(2) ** k)
    geo = [g / geo[-1] for g in geo]
    return [("uniform", uni), ("geometric", geo)]


def kernels(tier):
    from rockit.splines.micro_spline import eval_on_knots, bspline_derivative
    c = ctx()
    subgrids = [[Fr(1, 2)], [Fr(1, 3)], [Fr(1, 3), Fr(2, 3)], [Fr(1, 4), Fr(3, 4)], [Fr(1, 5), Fr(1, 2), Fr(9, 10)], [Fr(1, 10), Fr(1, 3), Fr(2, 3)]]
    for N in range(1, 6 if tier == "thorough" else 5):
        for d in range(0, 5):
            for kname, xi in knot_sets(N):
                if kname == "geometric" and N == 1:
                    continue
                K = clamped(xi, d)
                X = ca.DM([xi])
                tag = "[N=%d,d=%d,%s]" % (N, d, kname)
                # values on the knots
                k, B = eval_on_knots(X, d)
                want = []
                for x in xi:
                    col = cox_de_boor(K, d, x)
                    want.append(col if d > 0 else col)
                Wm = ca.DM._raw(len(want[0]), len(want), [v for col in want for v in col])
                if d == 0:
                    Wm = Wm[:-1, :] if Wm.shape[0] == B.shape[0] + 1 else Wm
                name = "micro_spline:eval_on_knots:ensures:cox-de-boor-on-knots" + tag
                if B.shape != Wm.shape:
                    c.fail(name, "shape %s vs %s" % (B.shape, Wm.shape))
                else:
                    bad = [(i, B.e[i], Wm.e[i]) for i in range(len(B.e)) if B.e[i] != Wm.e[i]]
                    (c.ok if not bad else lambda n_, **kw: c.fail(n_, "entry %d: %s vs Cox-de Boor %s" % bad[0]))(name, backend="enumerated")
                c.prove("micro_spline:eval_on_knots:ensures:coefficient-count" + tag, B.shape[0] == N + d if d > 0 else B.shape[0] == N)
                # sub-grid points (include_edges False): several sub-grids of equal size, different positions
                for sg in subgrids:
                    k2, B2 = eval_on_knots(X, d, subgrid=sg, include_edges=False)
                    pts = []
                    for i in range(N):
                        for s in sg:
                            pts.append(xi[i] * (1 - s) + s * xi[i + 1])
                    want = [cox_de_boor(K, d, x) for x in pts]
                    Wm = ca.DM._raw(len(want[0]), len(want), [v for col in want for v in col])
                    if d == 0 and Wm.shape[0] == B2.shape[0] + 1:
                        Wm = Wm[:-1, :]
                    name = "micro_spline:eval_on_knots:ensures:cox-de-boor-on-subgrid%s[%s]" % (tag, ",".join(str(s) for s in sg))
                    if B2.shape != Wm.shape:
                        c.fail(name, "shape %s vs %s" % (B2.shape, Wm.shape))
                        continue
                    bad = [(i, B2.e[i], Wm.e[i]) for i in range(len(B2.e)) if B2.e[i] != Wm.e[i]]
                    (c.ok if not bad else lambda n_, **kw: c.fail(n_, "entry %d: %s vs Cox-de Boor %s" % bad[0]))(name, backend="enumerated")
                    tb = [(i, k2.e[i], pts[i]) for i in range(len(pts)) if k2.e[i] != pts[i]]
                    (c.ok if not tb and len(k2.e) == len(pts) else lambda n_, **kw: c.fail(n_, "sample positions differ"))(name + ":positions", backend="enumerated")
                # derivative with symbolic coefficients
                if d >= 1:
                    C = ca.MX.sym("c", 2, N + d)
                    try:
                        D = bspline_derivative(C, X, d)
                    except Exception as e:
                        c.fail("micro_spline:bspline_derivative:ensures:analytic-derivative-coefficients" + tag, "%s: %s" % (type(e).__name__, str(e)[:120]))
                        continue
                    want = []
                    for i in range(N + d - 1):
                        den = K[i + d + 1] - K[i + 1]
                        want.append((C[:, i + 1] - C[:, i]) * (Fr(d) / den))
                    nlp.prove_equal("micro_spline:bspline_derivative:ensures:analytic-derivative-coefficients" + tag, D, ca.hcat(want))


def signal_pipeline(method, d, N, M, gridkind):
    """a bspline variable of order d through the real pipeline: samples = coefficients x Cox-de Boor basis"""
    c = ctx()
    g = dict(kind="uniform") if gridkind == "uniform" else dict(kind="geometric", growth=2.0, local=True)
    spec = Spec(method=method, N=N, M=M, degree=2, grid=g, T=("unknown",), t0=("unknown",), ode=E("f", None, ("x", "u", "t")))
    spec.build()
    ocp = spec.ocp
    v = ocp.variable(grid="bspline", order=d)
    ocp.subject_to(v <= 1.0)
    # the whole derivative chain is requested BEFORE the transcription (constraints on der(v), der(der(v)), ...)
    ders, cur = [], v
    for nu in range(1, d + 1):
        cur = ocp.der(cur)
        ders.append(cur)
        ocp.subject_to(cur <= 10.0 + nu)
    inst = "C17/signal[%s,d=%d,N=%d,M=%d,%s]" % (method, d, N, M, gridkind)
    meth = spec.transcribe()
    sig = meth.signals[v]
    Cf = ca.MX(sig.coeff)
    c.prove(inst + "|sampling_method:SamplingMethod.add_variables_V:ensures:coefficient-count", Cf.shape[1] == N + d and Cf.shape[0] == 1)
    xi = [Fr(x) if not isinstance(x, Fr) else x for x in ca.DM(meth.xi).e]
    K = clamped(xi, d)
    # control-grid samples
    t, val = ocp.sample(v, grid="control")
    want = []
    for j in range(N + 1):
        col = cox_de_boor(K, d, xi[j])
        if d == 0:
            col = col[:N]
        want.append(sum((Cf[:, i] * col[i] for i in range(len(col))), ca.MX(0.0)))
    nlp.prove_equal(inst + "|stage:Stage.sample:ensures:control-samples-are-cox-de-boor", val, ca.hcat(want))
    # every derivative of the chain, sampled through the transcription: analytic derivative coefficients (per unit physical
    # time: 1/T per derivative) x Cox-de Boor basis of one degree less
    coeff, deg = Cf, d
    Tm = ca.MX(meth.T)
    for nu, dsym in enumerate(ders, 1):
        Kd = clamped(xi, deg)
        coeff = ca.hcat([(coeff[:, i + 1] - coeff[:, i]) * (Fr(deg) / (Kd[i + deg + 1] - Kd[i + 1])) for i in range(coeff.shape[1] - 1)]) / Tm
        deg -= 1
        Kn = clamped(xi, deg)
        t, val = ocp.sample(dsym, grid="control")
        want = []
        for j in range(N + 1):
            col = cox_de_boor(Kn, deg, xi[j])
            if deg == 0:
                col = col[:N]
            want.append(sum((coeff[:, i] * col[i] for i in range(len(col))), ca.MX(0.0)))
        nlp.prove_equal(inst + "|sampling_method:BSplineSignal.register:ensures:derivative-%d-sampled-through-the-transcription" % nu, val, ca.hcat(want))
    # refined samples
    for r in (2, 3):
        t, val = ocp.sample(v, grid="integrator", refine=r)
        want = []
        for k in range(N):
            for q in range(M * r):
                x = xi[k] + (xi[k + 1] - xi[k]) * Fr(q, M * r)
                col = cox_de_boor(K, d, x)
                if d == 0:
                    col = col[:N]
                want.append(sum((Cf[:, i] * col[i] for i in range(len(col))), ca.MX(0.0)))
        col = cox_de_boor(K, d, xi[-1])
        if d == 0:
            col = col[:N]
        want.append(sum((Cf[:, i] * col[i] for i in range(len(col))), ca.MX(0.0)))
        nlp.prove_equal(inst + "|stage:Stage._grid_intg_fine:ensures:refined-samples-are-cox-de-boor[refine=%d]" % r, val, ca.hcat(want))


def guarded(fn, inst):
    def run():
        c = ctx()
        try:
            fn()
        except Exception as e:
            import traceback
            tb = traceback.extract_tb(e.__traceback__)
            where = next((fr for fr in reversed(tb) if "/rockit/" in fr.filename), tb[-1])
            c.fail("%s|%s:%s:safety:no-exception-on-valid-specification" % (inst, where.filename.split("/rockit/")[-1].replace(".py", ""), where.name), "%s: %s" % (type(e).__name__, str(e)[:200]))
    return run


def tasks(tier):
    out = [Task("C17/kernels", lambda: kernels(tier), kind="enumerated", bound=dict(d="0..4", N="1..4(5)", knots="uniform, geometric", subgrids=6), replay=dict(harness="kernel_probe"))]
    for meth in ("MS", "DC"):
        for d in (0, 1, 2, 3):
            for gk in ("uniform", "geometric"):
                N, M = (3, 2)
                inst = "C17/signal[%s,d=%d,N=%d,M=%d,%s]" % (meth, d, N, M, gk)
                out.append(Task(inst, guarded(lambda meth=meth, d=d, gk=gk, N=N, M=M: signal_pipeline(meth, d, N, M, gk), inst), kind="bounded", bound=dict(method=meth, order=d, N=N, M=M, grid=gk)))
    return out


def signal_in_dynamics(kind, method, with_der=False):
    """a b-spline signal inside the dynamics: interval k is propagated with the signal's value at node k
    (and every other symbol of the ODE with its own value -- the layout obligation of get_p_sys)"""
    from rockit import Ocp, MultipleShooting, SingleShooting
    from .oracle import erk_step, RK4
    c = ctx()
    T, t0 = unknown("horizon_T", positive=True), unknown("horizon_t0")
    ocp = Ocp(T=T, t0=t0)
    x = ocp.state(2); u = ocp.control()
    w = ocp.variable()                                   # a plain global variable besides the signal
    wc = ocp.variable(grid="control")                    # and a per-interval one
    q = ocp.parameter(); ocp.set_value(q, unknown("qv", 1, 1))
    if kind == "variable":
        s = ocp.variable(grid="bspline", order=1)
    else:
        s = ocp.parameter(grid="bspline", order=1)
    ocp.set_der(x, ufun("f", 2, [x, u, s, w, wc, q]))
    if with_der:
        # the derivative of the signal is used as well (here in the objective): the dynamics still see the signal ITSELF
        ocp.add_objective(ocp.at_tf(ocp.der(s)))
    N = 2
    if kind == "parameter":
        ocp.set_value(s, unknown("sv", 1, N + 1))
    ocp.solver("ipopt")
    M = dict(MS=MultipleShooting, SS=SingleShooting)[method]
    ocp.method(M(N=N, M=1, intg="rk"))
    inst = "C17/signal-in-dynamics[%s,%s%s]" % (kind, method, ",der(s) used" if with_der else "")
    ocp._transcribed
    aug = ocp._augmented
    meth = aug._method
    opti = meth.opti
    sig = meth.signals[s]
    Cf = ca.MX(sig.coeff)
    xi = [Fr(v) for v in ca.DM(meth.xi).e]
    K = clamped(xi, 1)
    ts = [ca.MX(t0) + ca.MX(T) * Fr(k, N) if k else ca.MX(t0) for k in range(N + 1)]
    Wv = ca.MX(meth.V)[0]
    Qp = ca.MX(meth.P[0])
    rows = []
    X = [ca.MX(meth.X[0])]
    for k in range(N):
        col = cox_de_boor(K, 1, xi[k])
        sk = sum((Cf[:, i] * col[i] for i in range(len(col))), ca.MX(0.0))
        h = ts[k + 1] - ts[k]
        f = lambda t, xx, k=k, sk=sk: (ufun("f", 2, [xx, meth.U[k], sk, Wv, meth.V_control[0][k], Qp]), None)
        xn, _, _, _ = erk_step(RK4, f, X[k] if method == "SS" else ca.MX(meth.X[k]), ts[k], h)
        if method == "MS":
            r = ca.MX(meth.X[k + 1]) - xn
            for i in range(2):
                rows.append(("eq", r.e[i], ("gap", k, i)))
        X.append(xn)
    if method == "MS":
        nlp.match_rows(inst + "|multiple_shooting:MultipleShooting.add_constraints:ensures:gap-with-signal", nlp.emitted_rows(opti), rows)
    else:
        for k in range(N + 1):
            nlp.prove_equal(inst + "|single_shooting:SingleShooting.add_constraints:ensures:state-with-signal[%d]" % k, meth.X[k], X[k])


def signal_derivative_chain(d, N, kind):
    """BSplineSignal.get_der (the object behind der() of a grid='bspline' signal): the derivative signal has the analytic
    derivative coefficients PER UNIT PHYSICAL TIME (divided by the horizon T), one degree less, the same knots and the
    same horizon -- so that the contract applies again to every further derivative (nu-th derivative: 1/T^nu)."""
    from rockit.sampling_method import BSplineSignal
    c = ctx()
    from .backend import MODEL
    xi = dict(knot_sets(N))[kind]
    X = ca.DM([xi]) if MODEL else ca.DM([[float(x) for x in xi]])
    T = unknown("horizon_T", positive=True)
    C = ca.MX.sym("c", 2, N + d)
    sig = BSplineSignal(C, X, d, T=T)
    K = clamped(xi, d)
    cur, coeff, deg = sig, C, d
    for nu in range(1, d + 1):
        name = "sampling_method:BSplineSignal.get_der:ensures[d=%d,N=%d,%s,derivative %d]" % (d, N, kind, nu)
        try:
            nxt = cur.get_der()
        except Exception as e:
            c.fail(name + ":no-exception", "%s: %s" % (type(e).__name__, str(e)[:120]))
            return
        Kd = clamped(xi, deg)
        fac = lambda i: Fr(deg) / (Kd[i + deg + 1] - Kd[i + 1])
        want = ca.hcat([(coeff[:, i + 1] - coeff[:, i]) * (fac(i) if MODEL else float(fac(i))) for i in range(coeff.shape[1] - 1)]) / ca.MX(T)
        nlp.prove_equal(name + ":coefficients-are-the-analytic-derivative-per-unit-physical-time", nxt.coeff, want)
        c.prove(name + ":one-degree-less", nxt.degree == deg - 1)
        nlp.prove_equal(name + ":same-horizon", ca.MX(nxt.T), ca.MX(T))
        nlp.prove_equal(name + ":same-knots", ca.DM(nxt.xi), X)
        cur, coeff, deg = nxt, want, deg - 1


def dynamics_independent_of_der(method, kind, prop="C17"):
    """the constraint rows of a problem whose dynamics contain a b-spline signal s are the same whether or not der(s) is
    ALSO used somewhere (here: in the objective): the system functions are fed with s itself, at every collocation time /
    integrator point (metamorphic: two transcriptions of the real code compared row by row)"""
    from rockit import Ocp, MultipleShooting, DirectCollocation
    from . import c13
    c = ctx()
    def build(use_der):
        ocp = Ocp(T=unknown("horizon_T", positive=True), t0=unknown("horizon_t0"))
        x = ocp.state(2); u = ocp.control(); w = ocp.variable()
        s = ocp.variable(grid="bspline", order=2) if kind == "variable" else ocp.parameter(grid="bspline", order=2)
        s2 = ocp.variable(grid="bspline", order=1)
        ocp.set_der(x, ufun("f", 2, [x, u, s, s2, w, ocp.t]))
        ocp.subject_to(ufun("c", 1, [x, s]) <= 1)
        ocp.add_objective(ocp.at_tf(ufun("m", 1, [x])))
        if use_der:
            ocp.add_objective(ocp.at_tf(ocp.der(s)))
        if kind == "parameter":
            ocp.set_value(s, unknown("sv", 1, 2 + 2))
        ocp.solver("ipopt")
        ocp.method(MultipleShooting(N=2, M=2, intg="rk") if method == "MS" else DirectCollocation(N=2, M=2, degree=2))
        ocp._transcribed
        return ocp
    a, b = c13.signature(build(False)), c13.signature(build(True))
    name = "%s/signal-dynamics-with-and-without-der[%s,%s]|%s:ensures:rows-do-not-depend-on-der(s)-being-used" % (
        prop, method, kind, "direct_collocation:DirectCollocation.add_constraints" if method == "DC" else "multiple_shooting:MultipleShooting.add_constraints")
    if len(a["rows"]) != len(b["rows"]):
        c.fail(name, "%d constraint rows without der(s), %d with it" % (len(a["rows"]), len(b["rows"])))
        return
    for i, ((k1, r1), (k2, r2)) in enumerate(zip(a["rows"], b["rows"])):
        ok, _ = nlp.equal_terms(r1, r2) if k1 == k2 else (False, None)
        if ok is None:
            c.unknown(name, "row %d undecided" % i)
            return
        if not ok:
            c.fail(name, "row %d: %s %s without der(s), %s %s with it" % (i, k1, ca._short(r1), k2, ca._short(r2)))
            return
    c.ok(name, detail="%d rows identical" % len(a["rows"]), backend="z3")


def der_independence_tasks(tier, prop):
    out = []
    for m in (("DC",) if prop == "C02" else ("MS",) if prop == "C01" else ("MS", "DC")):
        for kind in ("variable", "parameter"):
            inst = "%s/signal-dynamics-with-and-without-der[%s,%s]" % (prop, m, kind)
            out.append(Task(inst, guarded(lambda m=m, kind=kind: dynamics_independent_of_der(m, kind, prop), inst), kind="bounded", bound=dict(method=m, signal=kind, N=2, M=2, orders=[2, 1])))
    return out


def derivative_chain_sequence(d, N, order):
    """the derivative-chain contract for several knot vectors of the SAME size and degree one after the other in ONE
    process (stages on different grids, OCPs transcribed one after another): the result for a grid does not depend on
    the grids differentiated before"""
    for kind in order:
        signal_derivative_chain(d, N, kind)


def native_spline_method():
    """the SplineMethod clauses (replay/spline_method_native.py): spline_method.py is out of the symbolic engine's reach, so
    it is exercised on the real CasADi (networkx taken from the tooling venv) -- a bounded native stand-in"""
    import json, os, subprocess
    c = ctx()
    VERIF = os.path.dirname(os.path.dirname(os.path.abspath(__file__)))
    repo = os.environ.get("VERIF_REPO", "/repo")
    nx_dir = nx_path(VERIF)
    env = dict(os.environ, PYTHONPATH=os.pathsep.join([repo, VERIF, nx_dir]), PYTHONDONTWRITEBYTECODE="1")
    p = subprocess.run([os.environ.get("VERIF_NATIVE_PY", "/venv/bin/python"), os.path.join(VERIF, "replay", "spline_method_native.py")], capture_output=True, text=True, env=env,
                       timeout=1800, cwd=os.path.join(VERIF, "out"))
    if p.returncode != 0 or not p.stdout.strip():
        raise RuntimeError("native SplineMethod harness failed: " + p.stderr[-600:])
    for r in json.loads(p.stdout.strip().splitlines()[-1]):
        name = "spline_method:SplineMethod:ensures:%s[%s]" % (r["what"], r["config"])
        (c.ok(name, backend="enumerated-native") if r["ok"] else c.fail(name, r["detail"]))


def nx_path(VERIF):
    """a directory that makes `import networkx` work for the native interpreter: networkx is pure Python and lives in the
    tooling venv only; a symlink under out/ puts just that package on the path"""
    import os
    d = os.path.join(VERIF, "out", "nx")
    os.makedirs(d, exist_ok=True)
    link = os.path.join(d, "networkx")
    if not os.path.exists(link):
        import networkx
        try:
            os.symlink(os.path.dirname(networkx.__file__), link)
        except FileExistsError:
            pass
    return d


_tasks1 = tasks


def sequence_tasks(tier, prop):
    out = []
    for d in (1, 2, 3):
        for N in (3,):
            for order in (("uniform", "geometric"), ("geometric", "uniform")):
                inst = "%s/derivative-chain-in-sequence[d=%d,N=%d,%s]" % (prop, d, N, " then ".join(order))
                out.append(Task(inst, guarded(lambda d=d, N=N, order=order: derivative_chain_sequence(d, N, order), inst), kind="bounded", bound=dict(order=d, N=N, knot_vectors_in_one_process=list(order), T="symbolic"),
                                replay=dict(harness="task_probe", module="contracts.c17", task=inst.replace(prop + "/", "C17/", 1), tier=tier)))
    return out


def tasks(tier):
    out = _tasks1(tier)
    out.append(Task("C17/SplineMethod-native", native_spline_method, kind="enumerated", replay=dict(harness="spline_method_probe"),
                    bound=dict(systems=["double integrator", "mixed vector chains", "higher-order control"], N=[2, 3, 5], T=[1, 2.5], grids=["uniform", "geometric"], refine=[1, 2, 3], points="one random decision vector per configuration")))
    for d in (1, 2, 3, 4):
        for N, kname in ((2, "uniform"), (3, "geometric")):
            inst = "C17/derivative-chain[d=%d,N=%d,%s]" % (d, N, kname)
            out.append(Task(inst, guarded(lambda d=d, N=N, kname=kname: signal_derivative_chain(d, N, kname), inst), kind="bounded", bound=dict(order=d, N=N, knots=kname, T="symbolic"),
                            replay=dict(harness="task_probe", module="contracts.c17", task=inst, tier=tier)))
    out += sequence_tasks(tier, "C17")
    out += der_independence_tasks(tier, "C17")
    for kind in ("variable", "parameter"):
        for m in ("MS", "SS"):
            inst = "C17/signal-in-dynamics[%s,%s]" % (kind, m)
            out.append(Task(inst, guarded(lambda kind=kind, m=m: signal_in_dynamics(kind, m), inst), kind="bounded", bound=dict(signal=kind, method=m, N=2, order=1),
                            replay=dict(harness="signal_probe", kind=kind, method=m)))
            inst = "C17/signal-in-dynamics[%s,%s,der(s) used]" % (kind, m)
            out.append(Task(inst, guarded(lambda kind=kind, m=m: signal_in_dynamics(kind, m, True), inst), kind="bounded", bound=dict(signal=kind, method=m, N=2, order=1, derivative_of_the_signal="in the objective"),
                            replay=dict(harness="signal_probe", kind=kind, method=m, with_der=True)))
    return out
