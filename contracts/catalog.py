"""
Instance families for the bounded-structure tier.  Every entry is (label, factory) where the
factory returns a fresh Spec.  Labels are stable: known_findings.txt and the native replay
harness refer to them.  Back-end agnostic (no z3, no casadi import at module level).
"""
import casadi as ca
from .spec import Spec, E, Con, inf

ALLP = {"": [1], "control": [1], "control+": [1]}
ALLV = {"": [1], "control": [1], "control+": [1]}
ODE_ALL = E("f", None, ("x", "u", "t", "p", "pc", "pcp", "v", "vc", "vcp"))


NONUNIFORM = (("geometric", dict(kind="geometric", growth=2.0, local=True), ("unknown",)),
              ("geometric-Tfree", dict(kind="geometric", growth=2.0), ("free", 1.0)),
              ("localizeT", dict(kind="uniform", localize_T=True), ("free", 1.0)),
              ("freegrid", dict(kind="free"), ("free", 1.0)))


def _mk(**kw):
    return lambda: Spec(**kw)


def c01(tier):
    out = []
    Ns = [1, 2, 3] if tier == "thorough" else [1, 2]
    Ms = [1, 2, 3] if tier == "thorough" else [1, 2]
    for meth in ("MS", "SS"):
        for intg in ("rk", "expl_euler"):
            for N in Ns:
                for M in Ms:
                    out.append(("%s-%s-N%d-M%d-allpv" % (meth, intg, N, M),
                                _mk(method=meth, intg=intg, N=N, M=M, params=ALLP, variables=ALLV, ode=ODE_ALL,
                                    states=[1, 2] if N == 2 else [2], T=("unknown",), t0=("unknown",),
                                    objective=[("integral", E("L", 1, ("x", "u", "t", "p")))])))
        out.append(("%s-rk-geometric" % meth, _mk(method=meth, N=3, M=2, grid=dict(kind="geometric", growth=2.0), T=("unknown",), ode=E("f", None, ("x", "u", "t")))))
        out.append(("%s-rk-geometric-local" % meth, _mk(method=meth, N=3, M=1, grid=dict(kind="geometric", growth=1.5, local=True), T=("free", 1.0), ode=E("f", None, ("x", "u", "t")))))
        out.append(("%s-rk-localizeT" % meth, _mk(method=meth, N=2, M=2, grid=dict(kind="uniform", localize_T=True), T=("free", 1.0), ode=E("f", None, ("x", "u", "t")))))
        out.append(("%s-rk-freegrid" % meth, _mk(method=meth, N=2, M=1, grid=dict(kind="free"), T=("free", 1.0), ode=E("f", None, ("x", "u", "t")))))
        out.append(("%s-rk-nocontrol" % meth, _mk(method=meth, N=2, M=1, controls=[], ode=E("f", None, ("x", "t")))))
        out.append(("%s-rk-scaled" % meth, _mk(method=meth, N=2, M=2, scales={"x": "unknown", "u": "unknown"}, ode=E("f", None, ("x", "u", "t")))))
        # higher-order controls: helper states and helper control behind the user's own, integrator chain in the dynamics
        for hoc in ([(1, 1)], [(2, 2)], [(1, 2), (1, 1)], [(1, 3)], [(2, 4), (1, 3)]):
            out.append(("%s-higher-order-control-%s" % (meth, "+".join("%dx%d" % h for h in hoc)),
                        _mk(method=meth, N=2, M=2, hoc=hoc, scales={"x": "unknown", "w": "unknown"}, T=("unknown",), ode=E("f", None, ("x", "u", "w", "t")),
                            constraints=[Con(E("cw", 1, ("x", "w", "u")), "le", 1.0), Con(E("cn", 1, ("w", ("off", "w", 1))), "le", 2.0), Con(E("cb", 1, (("at", "t0", "w"), ("at", "tf", "x"))), "eq", 0.0)],
                            objective=[("sum", E("Sw", 1, ("x", "w"))), ("integral", E("Lw", 1, ("w", "u")))])))
        # discrete-time model: update rule sees DT (integrator step) and DT_control (interval)
        for M in (1, 2):
            out.append(("%s-discrete-M%d" % (meth, M), _mk(method=meth, N=2, M=M, discrete=True, T=("unknown",),
                                                           ode=E("g", None, ("x", "u", "t", "DT", "DT_control", "p")), params={"": [1]})))
    return out


def c04(tier):
    out = []
    out += scaled_bound_instances('C04')
    cons_basic = lambda: [Con(E("c1", 1, ("x", "u", "t", "pc", "vc")), "le", 1.0),
                          Con(E("c2", 2, ("x",)), "box", 2.0, lhs=-1.0, include_first=False),
                          Con(E("c3", 1, ("x", "u")), "ge", 0.0, include_last=False),
                          Con(E("ci", 1, ("x", "t", "u")), "le", 3.0, grid="integrator"),
                          Con(E("cj", 1, ("x", "t")), "le", 3.0, grid="integrator", include_first=False, include_last=False),
                          Con(E("b0", 2, (("at", "t0", "x"),)), "eq", 0.0),
                          Con(E("bf", 1, (("at", "tf", "x"), "p")), "le", 0.0),
                          Con(E("pp", 1, ("v", "p")), "le", 5.0)]
    for meth in ("MS", "SS", "DC"):
        for N in ([1, 2, 3] if tier == "thorough" else [2, 3]):
            for M in (1, 2):
                out.append(("%s-N%d-M%d-basic" % (meth, N, M),
                            _mk(method=meth, N=N, M=M, degree=2, params={"": [1], "control": [1]}, variables={"": [1], "control": [1]},
                                ode=E("f", None, ("x", "u", "t")), constraints=cons_basic())))
        # non-uniform / decision-dependent time grids (interior integrator points, interval lengths differ)
        for gl, g, Tk in (("geometric", dict(kind="geometric", growth=2.0, local=True), ("unknown",)),
                          ("geometric-Tfree", dict(kind="geometric", growth=2.0), ("free", 1.0)),
                          ("localizeT", dict(kind="uniform", localize_T=True), ("free", 1.0)),
                          ("freegrid", dict(kind="free"), ("free", 1.0))):
            out.append(("%s-N3-M2-basic-%s" % (meth, gl),
                        _mk(method=meth, N=3, M=2, degree=2, grid=g, T=Tk, t0=("unknown",), params={"": [1], "control": [1]}, variables={"": [1], "control": [1]},
                            ode=E("f", None, ("x", "u", "t")), constraints=cons_basic() + [Con(E("cd", 1, ("x", "t", "DT", "DT_control")), "le", 2.0),
                                                                                           Con(E("ce", 1, ("x", "t", "DT", "DT_control")), "le", 2.0, grid="integrator")])))
        # shifted operands
        for o in (1, -1, 2, -2):
            out.append(("%s-N3-offset%+d" % (meth, o),
                        _mk(method=meth, N=3, M=1, degree=1, ode=E("f", None, ("x", "u", "t")),
                            constraints=[Con(E("co", 1, ("x", ("off", "x", o), "u")), "le", 7.0)])))
        # constraints made ONLY of shifted operands (plus global quantities): still path constraints, one instance per interval
        out.append(("%s-N3-offset-only" % meth,
                    _mk(method=meth, N=3, M=1, degree=1, variables={"": [1]}, ode=E("f", None, ("x", "u", "t")),
                        constraints=[Con(E("cs", 1, (("off", "x", 1),)), "le", 5.0), Con(E("cv", 1, ("v", ("off", "x", -1))), "eq", 1.0),
                                     Con(E("cu", 1, (("off", "u", 1), ("off", "x", 2))), "le", 6.0, include_last=False)])))
        out.append(("%s-N3-offset-mixed" % meth,
                    _mk(method=meth, N=3, M=1, degree=1, ode=E("f", None, ("x", "u", "t")),
                        constraints=[Con(E("cm", 1, (("off", "x", 1), ("off", "u", -1), "x")), "le", 7.0)])))
        out.append(("%s-N2-scaled-constraints" % meth,
                    _mk(method=meth, N=2, M=1, degree=2, ode=E("f", None, ("x", "u", "t")),
                        constraints=[Con(E("c1", 1, ("x", "u")), "le", 1.0, scale=4.0),
                                     Con(E("c2", 2, ("x",)), "box", 2.0, lhs=-1.0, scale=2.0),
                                     Con(E("c3", 1, ("x", "u")), "eq", 0.5, scale=8.0)])))
    # algebraic variables inside path constraints (DAE, collocation): value at a node / integrator point is the value of
    # the algebraic polynomial of the step starting there
    for N, M in ((2, 1), (3, 2)):
        out.append(("DC-N%d-M%d-dae-z-in-constraints" % (N, M),
                    _mk(method="DC", N=N, M=M, degree=2, algebraics=[1], ode=E("f", None, ("x", "u", "z", "t")), alg=E("g", None, ("x", "z", "u")),
                        constraints=[Con(E("cz", 1, ("x", "z", "u")), "le", 1.0), Con(E("czi", 1, ("x", "z")), "le", 2.0, grid="integrator"),
                                     Con(E("czn", 1, ("z", ("off", "z", 1))), "le", 3.0), Con(E("czf", 1, (("at", "tf", "z"), ("at", "t0", "z"))), "le", 4.0)])))
    out.append(("DC-N2-M2-roots", _mk(method="DC", N=2, M=2, degree=2, ode=E("f", None, ("x", "u", "t")),
                                      constraints=[Con(E("cr", 1, ("x", "u", "t")), "le", 1.0, grid="integrator_roots")])))
    for meth in ("MS", "SS"):
        out.append(("%s-N2-roots" % meth, _mk(method=meth, N=2, M=1, ode=E("f", None, ("x", "u", "t")), expect_reject="grid-the-method-cannot-place",
                                              constraints=[Con(E("cr", 1, ("x", "u", "t")), "le", 1.0, grid="integrator_roots")])))
    return out


def scaled_bound_instances(prop):
    """scaled constraints whose bounds are (a) expressions of parameters, (b) vectors with infinite entries on either side"""
    out = []
    inf = float("inf")
    for meth in ("MS", "SS", "DC"):
        cons = lambda: [Con(E("cx", 1, ("x", "u")), "le", E("ub_p", 1, ("p",)), scale="unknown"),
                        Con(E("cg", 1, ("x",)), "ge", E("lb_pc", 1, ("pc",)), scale="unknown"),
                        Con(E("cb", 1, ("x", "u")), "box", E("ub2_p", 1, ("p",)), lhs=E("lb2_p", 1, ("p",)), scale="unknown"),
                        Con(E("b0", 1, (("at", "t0", "x"),)), "eq", E("x0_p", 1, ("p",)), scale="unknown"),
                        Con(E("cv", 2, ("x", "u")), "box", ca.DM([2.0, inf]), lhs=ca.DM([-inf, -1.0]), scale=4.0),
                        Con(E("cw", 2, ("x",)), "le", ca.DM([inf, 3.0]), scale=0.5),
                        Con(E("cy", 2, ("x",)), "ge", ca.DM([-1.5, -inf]), scale=ca.DM([2.0, 3.0]))]
        out.append(("%s-scaled-parametric-and-partly-infinite-bounds" % meth,
                    _mk(method=meth, N=2, M=1, degree=2, params={"": [1], "control": [1]}, ode=E("f", None, ("x", "u", "p")), constraints=cons())))
    return out


def c05(tier):
    out = []
    terms = lambda: [("at_t0", E("M0", 1, ("x", "t"))), ("at_tf", E("Mf", 1, ("x", "T", "p"))),
                     ("sum", E("S", 1, ("x", "u", "pc"))), ("sum", E("Sp", 1, ("x", "u")), dict(include_last=True)),
                     ("integral", E("L", 1, ("x", "u", "t", "vc"))), ("value", E("V", 1, ("v", "p")))]
    for meth in ("MS", "SS", "DC"):
        for N in (1, 2, 3):
            for M in (1, 2):
                if tier != "thorough" and (N, M) not in ((1, 1), (2, 2), (3, 1)):
                    continue
                out.append(("%s-N%d-M%d-terms" % (meth, N, M),
                            _mk(method=meth, N=N, M=M, degree=2, intg="rk", params={"": [1], "control": [1]},
                                variables={"": [1], "control": [1]}, T=("unknown",), ode=E("f", None, ("x", "u", "t")), objective=terms())))
        out.append(("%s-euler-terms" % meth, _mk(method=meth, N=2, M=2, degree=3, scheme="legendre", intg="expl_euler",
                                                 params={"": [1], "control": [1]}, variables={"": [1], "control": [1]},
                                                 ode=E("f", None, ("x", "u", "t")), objective=terms())))
        out.append(("%s-integral-control" % meth, _mk(method=meth, N=3, M=1, degree=2, T=("unknown",), ode=E("f", None, ("x", "u", "t")),
                                                      objective=[("integral", E("Lc", 1, ("x", "u")), dict(grid="control"))])))
        for gk in (dict(kind="geometric", growth=2.0), dict(kind="uniform", localize_T=True)):
            out.append(("%s-integral-control-%s" % (meth, "geometric" if gk["kind"] == "geometric" else "localizeT"),
                        _mk(method=meth, N=3, M=1, degree=2, T=("free", 1.0), grid=gk, ode=E("f", None, ("x", "u", "t")),
                            objective=[("integral", E("Lc", 1, ("x", "u")), dict(grid="control"))])))
        for gl, g, Tk in NONUNIFORM:
            out.append(("%s-terms-%s" % (meth, gl),
                        _mk(method=meth, N=3, M=2, degree=2, grid=dict(g), T=Tk, t0=("unknown",), params={"": [1], "control": [1]},
                            variables={"": [1], "control": [1]}, ode=E("f", None, ("x", "u", "t")), objective=terms())))
        # terms WITHOUT states, controls and time: per-interval variables / parameters (and the interval length) still differ
        # from interval to interval
        free_terms = lambda: [("sum", E("Sw", 1, ("vc", "pc"))), ("sum", E("Swp", 1, ("vcp", "pcp")), dict(include_last=True)),
                              ("integral", E("Lw", 1, ("vc", "pc"))), ("integral", E("Lwc", 1, ("vc", "pc")), dict(grid="control")),
                              ("sum", E("Sd", 1, ("DT_control", "p"))), ("at_tf", E("Mw", 1, ("vcp", "pcp"))), ("at_t0", E("M0w", 1, ("vc", "pc")))]
        for gl, g in (("uniform", dict(kind="uniform")), ("geometric", dict(kind="geometric", growth=2.0))):
            out.append(("%s-state-free-terms-%s" % (meth, gl),
                        _mk(method=meth, N=3, M=2, degree=2, grid=dict(g), T=("unknown",), params={"": [1], "control": [1], "control+": [1]},
                            variables={"control": [1], "control+": [1]}, ode=E("f", None, ("x", "u", "t")), objective=free_terms())))
        out.append(("%s-two-integrals" % meth, _mk(method=meth, N=2, M=1, degree=2, ode=E("f", None, ("x", "u", "t")),
                                                   objective=[("integral", E("L1", 1, ("x", "u"))), ("integral", E("L2", 1, ("x", "t")))])))
    for d in range(1, 6):
        for sch in ("radau", "legendre"):
            out.append(("DC-d%d-%s-integral" % (d, sch), _mk(method="DC", N=1, M=1, degree=d, scheme=sch, ode=E("f", None, ("x", "u", "t")),
                                                             objective=[("integral", E("L", 1, ("x", "u", "t")))])))
    return out


def c11(tier):
    out = []
    cons = lambda: [Con(E("c1", 1, ("x", "u", "t", "T", "t0")), "le", 1.0), Con(E("bf", 1, (("at", "tf", "x"), "T")), "le", 0.0)]
    obj = lambda: [("at_tf", E("Mf", 1, ("x", "T", "t0"))), ("integral", E("L", 1, ("x", "u", "t")))]
    for meth in ("MS", "SS", "DC"):
        for Tk in (("free", 1.5), ("fixed", 2.0), ("unknown",), ("param",)):
            for t0k in (("fixed", 0.0), ("free", 0.5)) if tier != "thorough" else (("fixed", 0.0), ("free", 0.5), ("unknown",), ("param",)):
                out.append(("%s-T%s-t0%s" % (meth, Tk[0], t0k[0]),
                            _mk(method=meth, N=2, M=2, degree=2, T=Tk, t0=t0k, ode=E("f", None, ("x", "u", "t")), constraints=cons(), objective=obj())))
        for Tk, t0k in ((("free", 1.5), ("fixed", 0.0)), (("free", 1.5), ("free", 0.5)), (("fixed", 2.0), ("free", 0.5)), (("fixed", 2.0), ("fixed", 0.0))):
            out.append(("%s-T%s-t0%s-allpv" % (meth, Tk[0], t0k[0]),
                        _mk(method=meth, N=2, M=2, degree=2, T=Tk, t0=t0k, params=ALLP, variables=ALLV, ode=ODE_ALL,
                            constraints=[Con(E("c1", 1, ("x", "u", "t", "T", "t0", "pc", "vc", "v")), "le", 1.0)],
                            objective=[("integral", E("L", 1, ("x", "u", "t", "pc", "pcp", "v")))])))
        out.append(("%s-Tfree-geometric" % meth, _mk(method=meth, N=3, M=1, degree=2, T=("free", 1.0), grid=dict(kind="geometric", growth=2.0),
                                                     ode=E("f", None, ("x", "u", "t")), constraints=cons(), objective=obj())))
        # the FreeTime guess is ANY number (t0: also negative): the horizon variables start exactly there
        for gl, g in (("uniform", dict(kind="uniform")), ("geometric", dict(kind="geometric", growth=2.0)), ("freegrid-loct0", dict(kind="free", localize_t0=True))):
            out.append(("%s-anyguess-%s" % (meth, gl), _mk(method=meth, N=3, M=2, degree=2, T=("free", "unknown"), t0=("free", "unknown"), grid=dict(g),
                                                          ode=E("f", None, ("x", "u", "t")), constraints=cons(), objective=obj())))
        out.append(("%s-negative-t0-guess" % meth, _mk(method=meth, N=2, M=1, degree=2, T=("free", 2.0), t0=("free", -0.7), ode=E("f", None, ("x", "u", "t")), constraints=cons(), objective=obj())))
        # grids with their own time variables: the horizon variable must still BE the length of the partition
        for gl, g in (("freegrid", dict(kind="free")), ("freegrid-loct0", dict(kind="free", localize_t0=True)),
                      ("uniform-locboth", dict(kind="uniform", localize_T=True, localize_t0=True)), ("geometric-locT", dict(kind="geometric", growth=2.0, localize_T=True))):
            for t0k in (("fixed", 0.5), ("free", 0.5)):
                out.append(("%s-Tfree-t0%s-%s" % (meth, t0k[0], gl), _mk(method=meth, N=3, M=2, degree=2, T=("free", 1.5), t0=t0k, grid=dict(g),
                                                                          ode=E("f", None, ("x", "u", "t")), constraints=cons(), objective=obj())))
    return out


def c06(tier):
    out = []
    grids = [("uniform", dict(kind="uniform")),
             ("uniform-minmax", dict(kind="uniform", min=0.1, max=2.0)),
             ("uniform-min-only", dict(kind="uniform", min=0.1)),
             ("uniform-max-only", dict(kind="uniform", max=2.0)),
             ("uniform-locT-max-only", dict(kind="uniform", localize_T=True, max=2.0)),
             ("geometric-min-only", dict(kind="geometric", growth=2.0, min=0.05)),
             ("free-max-only", dict(kind="free", max=1.0)),
             ("free-min-only", dict(kind="free", min=0.1)),
             ("uniform-locT", dict(kind="uniform", localize_T=True)),
             ("uniform-locT-minmax", dict(kind="uniform", localize_T=True, min=0.1, max=2.0)),
             ("uniform-loct0", dict(kind="uniform", localize_t0=True)),
             ("uniform-locboth", dict(kind="uniform", localize_t0=True, localize_T=True)),
             ("geometric", dict(kind="geometric", growth=2.0)),
             ("geometric-minmax", dict(kind="geometric", growth=2.0, min=0.05, max=0.2)),
             ("geometric-local", dict(kind="geometric", growth=1.5, local=True)),
             ("geometric-local-max", dict(kind="geometric", growth=2.0, local=True, max=0.2)),
             ("geometric-locT", dict(kind="geometric", growth=2.0, localize_T=True)),
             ("geometric-locT-max", dict(kind="geometric", growth=2.0, localize_T=True, max=0.2)),
             ("free", dict(kind="free")),
             ("free-minmax", dict(kind="free", min=0.1, max=1.0)),
             ("free-loct0", dict(kind="free", localize_t0=True))]
    for meth in ("MS", "SS", "DC"):
        for gl, g in grids:
            for Tk in (("free", 1.0), ("unknown",)):
                if g.get("kind") == "free" and Tk[0] != "free" and tier != "thorough":
                    continue
                for N in ((1, 2, 3) if tier == "thorough" else (3,)):
                    out.append(("%s-%s-T%s-N%d" % (meth, gl, Tk[0], N),
                                _mk(method=meth, N=N, M=2, degree=1, grid=dict(g), T=Tk, t0=("unknown",), ode=E("f", None, ("x", "u", "t")))))
    return out


def c14(tier):
    out = []
    out += scaled_bound_instances('C14')
    sc = {"x": "unknown", "u": "unknown", "z": "unknown", "v": "unknown", "vcontrol": "unknown", "vcontrol+": "unknown", "der": "unknown"}
    cons = lambda: [Con(E("c1", 1, ("x", "u", "v", "vc")), "le", 1.0, scale=4.0),
                    Con(E("c2", 2, ("x",)), "box", 2.0, lhs=-1.0, scale=0.5),
                    Con(E("c3", 1, ("x", "u")), "eq", 0.5, scale="unknown", grid="integrator"),
                    Con(E("b0", 2, (("at", "t0", "x"),)), "eq", 0.0, scale=3.0)]
    for meth in ("MS", "SS", "DC"):
        for N, M in ((2, 1), (2, 2)):
            out.append(("%s-N%d-M%d-scaled" % (meth, N, M),
                        _mk(method=meth, N=N, M=M, degree=2, states=[1, 2], scales=dict(sc), variables={"": [1], "control": [1], "control+": [1]},
                            ode=E("f", None, ("x", "u", "t", "v", "vc", "vcp")), constraints=cons() + [Con(E("c4", 1, ("x", "vcp")), "le", 1.0)],
                            objective=[("integral", E("L", 1, ("x", "u"))), ("at_tf", E("Mf", 1, ("x",)))])))
    # guesses stay in physical units: scaled algebraic variables under the shooting methods (root-finder start values) ...
    for meth in ("MS", "SS"):
        for after in (0, "all"):
            out.append(("%s-dae-scaled-algebraic-guesses%s" % (meth, "-after" if after else ""),
                        _mk(method=meth, intg="collocation", N=2, M=2, algebraics=[2, 1], scales={"z": "unknown", "x": "unknown", "u": "unknown"}, T=("fixed", 2.0), t0=("fixed", 0.5),
                            ode=E("f", None, ("x", "u", "z", "t")), alg=E("g", None, ("x", "z", "u")), initial_after=after,
                            initial=[(("z", 0), ("unknown", "g_za", 2, 1)), (("z", 1), E("gzb", 1, ("t",))), (("x", 0), ("unknown", "g_x", 2, 1)), (("u", 0), E("gu", 1, ("t",)))])))
    # ... and every scaled decision variable of every method
    for meth in ("MS", "SS", "DC"):
        out.append(("%s-scaled-guesses" % meth, _mk(method=meth, N=2, M=2, degree=2, states=[1, 2], scales=dict(sc), variables={"": [1], "control": [1], "control+": [1]},
                                                    algebraics=[1] if meth == "DC" else [], ode=E("f", None, ("x", "u", "t") + (("z",) if meth == "DC" else ())),
                                                    alg=E("g", None, ("x", "z")) if meth == "DC" else None, T=("free", 1.5),
                                                    initial=[(("x", 0), ("unknown", "g_x0", 1, 1)), (("x", 1), E("gx1", 2, ("t",))), (("u", 0), E("gu", 1, ("t",))), ((("v", ""), 0), ("unknown", "g_v", 1, 1)),
                                                             ((("v", "control"), 0), ("unknown", "a_vc", 1, 2)), ((("v", "control+"), 0), E("gvcp", 1, ("t",)))] + ([(("z", 0), ("unknown", "g_z", 1, 1))] if meth == "DC" else []))))
    # derivative scales with set_der called in another order than the states were declared
    out.append(("DC-der-scales-reversed-set_der", _mk(method="DC", N=2, M=2, degree=2, states=[1, 2, 1], scales=dict(sc), der_order="reversed",
                                                      ode=E("f", None, ("x", "u", "t")), constraints=cons())))
    out.append(("DC-dae-scaled", _mk(method="DC", N=2, M=1, degree=2, algebraics=[1], scales=dict(sc),
                                     ode=E("f", None, ("x", "u", "z", "t")), alg=E("g", None, ("x", "z", "u")),
                                     constraints=[Con(E("c1", 1, ("x", "u")), "le", 1.0, scale=4.0)])))
    return out


def c02(tier):
    out = []
    for d in range(1, 6):
        for sch in ("radau", "legendre"):
            for (N, M) in ((1, 1), (2, 2)) if tier != "thorough" else ((1, 1), (2, 1), (2, 2), (3, 2)):
                out.append(("DC-d%d-%s-N%d-M%d" % (d, sch, N, M),
                            _mk(method="DC", N=N, M=M, degree=d, scheme=sch, params=ALLP, variables=ALLV, ode=ODE_ALL, T=("unknown",), t0=("unknown",))))
            out.append(("DC-d%d-%s-dae" % (d, sch),
                        _mk(method="DC", N=2, M=1, degree=d, scheme=sch, algebraics=[1], T=("unknown",),
                            ode=E("f", None, ("x", "u", "z", "t")), alg=E("g", None, ("x", "z", "u", "t")))))
            if d <= 3:
                out.append(("DC-d%d-%s-dae-M2" % (d, sch),
                            _mk(method="DC", N=2, M=2, degree=d, scheme=sch, algebraics=[2], T=("unknown",),
                                ode=E("f", None, ("x", "u", "z", "t")), alg=E("g", None, ("x", "z", "u", "t")))))
    for hoc in ([(1, 1)], [(2, 2)], [(1, 2), (1, 1)], [(1, 3)], [(2, 4), (1, 3)]):
        out.append(("DC-higher-order-control-%s" % "+".join("%dx%d" % h for h in hoc),
                    _mk(method="DC", N=2, M=2, degree=2, hoc=hoc, scales={"x": "unknown", "w": "unknown", "der": "unknown"}, T=("unknown",), ode=E("f", None, ("x", "u", "w", "t")),
                        constraints=[Con(E("cw", 1, ("x", "w", "u")), "le", 1.0), Con(E("cn", 1, ("w", ("off", "w", 1))), "le", 2.0), Con(E("cb", 1, (("at", "t0", "w"), ("at", "tf", "x"))), "eq", 0.0)],
                        objective=[("sum", E("Sw", 1, ("x", "w"))), ("integral", E("Lw", 1, ("w", "u")))])))
    out.append(("DC-d2-geometric", _mk(method="DC", N=3, M=2, degree=2, grid=dict(kind="geometric", growth=2.0), T=("free", 1.0), ode=E("f", None, ("x", "u", "t")))))
    out.append(("DC-d2-localizeT", _mk(method="DC", N=2, M=2, degree=2, grid=dict(kind="uniform", localize_T=True), T=("free", 1.0), ode=E("f", None, ("x", "u", "t")))))
    return out


def c09(tier):
    out = []
    out += scaled_bound_instances('C09')
    P = {"": [1, 2], "control": [1, 2], "control+": [2]}
    PM = {"": [(2, 2)], "control": [(2, 2), 1], "control+": [(1, 2)]}        # matrix-valued parameters
    for meth in ("MS", "SS", "DC"):
        out.append(("%s-matrix-params" % meth,
                    _mk(method=meth, N=2, M=2, degree=2, params=PM, ode=E("f", None, ("x", "u", "t", "p", "pc", "pcp")),
                        constraints=[Con(E("c1", 1, ("x", "p", "pc", "pcp")), "le", 1.0), Con(E("bf", 1, (("at", "tf", "x"), ("at", "tf", "pc"), ("at", "tf", "pcp"))), "le", 0.0)],
                        objective=[("sum", E("S", 1, ("x", "pc", "pcp")), dict(include_last=True))])))
        for N, M in ((2, 1), (3, 2)):
            out.append(("%s-N%d-M%d-params" % (meth, N, M),
                        _mk(method=meth, N=N, M=M, degree=2, params=P, ode=E("f", None, ("x", "u", "t", "p", "pc", "pcp")),
                            constraints=[Con(E("c1", 1, ("x", "p", "pc", "pcp")), "le", 1.0), Con(E("ci", 1, ("x", "pc", "pcp")), "le", 1.0, grid="integrator"),
                                         Con(E("bf", 1, (("at", "tf", "x"), ("at", "tf", "pc"), ("at", "tf", "pcp"), "p")), "le", 0.0)],
                            objective=[("sum", E("S", 1, ("x", "pc", "pcp")), dict(include_last=True)), ("integral", E("L", 1, ("x", "p", "pc")))])))
        # parameters inside shifted operands (ocp.next): the operand lands on node k+1, also on the final node
        out.append(("%s-N3-shifted-params" % meth,
                    _mk(method=meth, N=3, M=1, degree=1, params=P, ode=E("f", None, ("x", "u", "t", "p", "pc", "pcp")),
                        constraints=[Con(E("cn", 1, ("x", ("off", "x", 1), ("off", "pcp", 1), ("off", "pc", 1), "pcp", "pc", "p")), "le", 1.0),
                                     Con(E("cp", 1, ("x", ("off", "pcp", -1), ("off", "pc", -1))), "le", 1.0)],
                        objective=[("sum", E("Sn", 1, (("off", "x", 1), ("off", "pcp", 1), "pc")), {})])))
        out.append(("%s-Tparam" % meth, _mk(method=meth, N=2, M=2, degree=2, T=("param",), t0=("param",), ode=E("f", None, ("x", "u", "t")),
                                            constraints=[Con(E("c1", 1, ("x", "t", "T")), "le", 1.0)], objective=[("at_tf", E("Mf", 1, ("x", "T", "t")))])))
    return out


def c10(tier):
    out = []
    V = {"": [1], "control": [1], "control+": [1]}
    def consts():
        return [(("x", 0), ("unknown", "g_x", 2, 1)), (("u", 0), ("unknown", "g_u", 1, 1)), ((("v", ""), 0), ("unknown", "g_v", 1, 1)),
                ((("v", "control"), 0), ("unknown", "g_vc", 1, 1)), ((("v", "control+"), 0), ("unknown", "g_vcp", 1, 1))]
    def arrays(N, plus):
        return [(("x", 0), ("unknown", "a_x", 2, N + 1 if plus else N)), (("u", 0), ("unknown", "a_u", 1, N)),
                ((("v", "control"), 0), ("unknown", "a_vc", 1, N)), ((("v", "control+"), 0), ("unknown", "a_vcp", 1, N + 1))]
    def texpr_states():
        return [(("x", 0), E("gx", 2, ("t",))), ((("v", "control+"), 0), E("gvcp", 1, ("t",)))]
    def texpr_controls():
        return [(("u", 0), E("gu", 1, ("t",))), ((("v", "control"), 0), E("gvc", 1, ("t",)))]
    base = dict(variables=V, ode=E("f", None, ("x", "u", "t", "v", "vc", "vcp")))
    for meth in ("MS", "SS", "DC"):
        for N, M in ((2, 1), (3, 2)):
            out.append(("%s-N%d-M%d-const" % (meth, N, M), _mk(method=meth, N=N, M=M, degree=2, initial=consts(), **base)))
            out.append(("%s-N%d-M%d-none" % (meth, N, M), _mk(method=meth, N=N, M=M, degree=2, initial=[], **base)))
            out.append(("%s-N%d-M%d-texpr-states" % (meth, N, M), _mk(method=meth, N=N, M=M, degree=2, T=("free", 1.5), t0=("free", 0.25), initial=texpr_states(), **base)))
            out.append(("%s-N%d-M%d-texpr-controls" % (meth, N, M), _mk(method=meth, N=N, M=M, degree=2, T=("free", 1.5), initial=texpr_controls(), **base)))
            out.append(("%s-N%d-M%d-lastwins" % (meth, N, M), _mk(method=meth, N=N, M=M, degree=2,
                                                                  initial=consts() + [(("x", 0), ("unknown", "g_x2", 2, 1)), (("u", 0), 3.0)], **base)))
            if meth != "DC":
                out.append(("%s-N%d-M%d-arrays" % (meth, N, M), _mk(method=meth, N=N, M=M, initial=arrays(N, True), **base)))
                out.append(("%s-N%d-M%d-arraysN" % (meth, N, M), _mk(method=meth, N=N, M=M, initial=arrays(N, False), **base)))
            else:
                out.append(("%s-N%d-M%d-arrays" % (meth, N, M), _mk(method=meth, N=N, M=M, degree=2, initial=arrays(N, True), **base)))
                out.append(("%s-N%d-M%d-arraysN" % (meth, N, M), _mk(method=meth, N=N, M=M, degree=2, initial=arrays(N, False), **base)))
        # a guess that is exactly ZERO is a guess like any other: it replaces an earlier non-zero one (before and after the first
        # transcription), and a zero t0 guess overrides the FreeTime value
        zeros = lambda: [(("x", 0), 0.0), (("u", 0), ca.DM([[1.0, 0.0, 3.0]])), ((("v", ""), 0), 0), ((("v", "control+"), 0), ca.DM.zeros(1, 4))]
        for after in (0, 4):
            out.append(("%s-N3-M2-zero-guess-over-nonzero%s" % (meth, "-after-transcription" if after else ""),
                        _mk(method=meth, N=3, M=2, degree=2, initial=consts() + zeros(), initial_after=after, **base)))
        out.append(("%s-N3-M1-zero-t0-guess-over-FreeTime" % meth, _mk(method=meth, N=3, M=1, degree=2, T=("free", 1.5), t0=("free", 2.0),
                                                                       initial=[("t0", 0.0)] + texpr_states(), **base)))
        # guesses given after the first transcription produce the same starting point
        out.append(("%s-N3-M2-after-all" % meth, _mk(method=meth, N=3, M=2, degree=2, T=("free", 1.5), t0=("free", 0.25), initial=consts() + texpr_controls(), initial_after="all", **base)))
        out.append(("%s-N3-M2-after-T-guess" % meth, _mk(method=meth, N=3, M=2, degree=2, T=("free", 1.0), t0=("free", 0.0),
                                                          initial=texpr_states() + texpr_controls() + [("t0", ("unknown", "g_t0", 1, 1)), ("T", ("unknown", "g_T", 1, 1))], initial_after=2, **base)))
        out.append(("%s-N2-M1-after-arrays" % meth, _mk(method=meth, N=2, M=1, degree=2, initial=consts() + arrays(2, True), initial_after=4, **base)))
        if meth != "DC":
            # DAE under a shooting method (builtin integrator): the guess of an algebraic variable is the root finder's start
            for intg in ("collocation", "idas"):
                for after in (0, "all"):
                    out.append(("%s-dae-%s-algebraic-guesses%s" % (meth, intg, "-after" if after else ""),
                                _mk(method=meth, intg=intg, N=2, M=2, algebraics=[2, 1], scales={"z": "unknown", "x": "unknown"}, T=("fixed", 2.0), t0=("fixed", 0.5),
                                    ode=E("f", None, ("x", "u", "z", "t")), alg=E("g", None, ("x", "z", "u")), initial_after=after,
                                    initial=[(("z", 0), ("unknown", "g_za", 2, 1)), (("z", 1), E("gzb", 1, ("t",))), (("x", 0), ("unknown", "g_x", 2, 1))])))
        if meth == "DC":
            out.append(("DC-dae-algebraic-guesses", _mk(method="DC", N=2, M=2, degree=2, algebraics=[2, 1], T=("free", 1.5), t0=("fixed", 0.5),
                                                        ode=E("f", None, ("x", "u", "z", "t")), alg=E("g", None, ("x", "z", "u")),
                                                        initial=[(("z", 0), ("unknown", "g_za", 2, 1)), (("z", 1), E("gzb", 1, ("t",))), (("x", 0), E("gx", 2, ("t",)))])))
        out.append(("%s-scaled-const" % meth, _mk(method=meth, N=2, M=1, degree=2, scales={"x": "unknown", "u": "unknown", "v": "unknown", "vcontrol": "unknown"}, initial=consts(), **base)))
        out.append(("%s-Tguess-texpr" % meth, _mk(method=meth, N=3, M=1, degree=2, T=("free", 1.0), t0=("free", 0.0),
                                                  initial=[("T", ("unknown", "g_T", 1, 1)), ("t0", ("unknown", "g_t0", 1, 1))] + texpr_states(), **base)))
        out.append(("%s-Tguess-last-texpr" % meth, _mk(method=meth, N=3, M=1, degree=2, T=("free", 1.0), t0=("free", 0.0),
                                                       initial=texpr_states() + [("t0", ("unknown", "g_t0", 1, 1)), ("T", ("unknown", "g_T", 1, 1))], **base)))
        for gl, g in (("geometric-locT", dict(kind="geometric", growth=2.0, localize_T=True)), ("geometric-local-locT", dict(kind="geometric", growth=1.5, local=True, localize_T=True)),
                      ("uniform-locboth", dict(kind="uniform", localize_T=True, localize_t0=True)), ("freegrid", dict(kind="free"))):
            out.append(("%s-%s-texpr" % (meth, gl), _mk(method=meth, N=3, M=2, degree=2, T=("free", 2.0), t0=("fixed", 1.0), grid=dict(g),
                                                      initial=texpr_states() + texpr_controls(), **base)))
        out.append(("%s-geometric-texpr" % meth, _mk(method=meth, N=3, M=2, degree=2, T=("free", 2.0), grid=dict(kind="geometric", growth=2.0, local=True), initial=texpr_states(), **base)))
    return out


def _with_generated(fn, select, n_quick, n_thorough, late=None, concat=False, register=True):
    """catalogue family + the generated specifications (contracts/randspec.py) that are relevant for the property;
    late: every third one additionally gets this history (declarations made only after a first transcription)"""
    def fam(tier):
        from . import randspec
        out = list(fn(tier))
        n = n_thorough if tier == "thorough" else n_quick
        for i in range(n):
            kw = randspec.make(i)
            if select(kw):
                out.append(("R%03d-%s" % (i, kw["method"]), (lambda i=i: Spec(**randspec.make(i)))))
                if concat and len(kw["states"]) >= 2 and not kw["scales"].get("der"):
                    # the right-hand sides given through ONE concatenation of the state symbols (reversed order)
                    out.append(("R%03d-%s-concatenated-declarations" % (i, kw["method"]), (lambda i=i: Spec(concat=True, **randspec.make(i)))))
                if register and i % 4 == 2:
                    # the same specification over the USER's own symbols (ocp.register_state / _control / _parameter / _variable,
                    # lists of symbols where a kind has several)
                    out.append(("R%03d-%s-registered-symbols" % (i, kw["method"]), (lambda i=i: Spec(register="list", **randspec.make(i)))))
                if late and i % 3 == 0:
                    def fac(i=i):
                        kw = randspec.make(i)
                        lt = dict(late)
                        if "objective" in lt:
                            lt["objective"] = max(1, len(kw["objective"]) // 2)
                        return Spec(late=lt, **kw)
                    out.append(("R%03d-%s-%s-after-transcription" % (i, kw["method"], "+".join(sorted(late))), fac))
        return out
    return fam


def _c10_generated(tier):
    from . import randspec
    out = list(c10(tier))
    for i in range(NT if tier == "thorough" else NQ):
        kw = randspec.make(i)
        def fac(i=i):
            kw = randspec.make(i)
            ini, after = randspec.make_initial(i, kw)
            return Spec(initial=ini, initial_after=after, **kw)
        out.append(("R%03d-%s-guesses" % (i, kw["method"]), fac))
    return out


def _c13_generated(tier):
    """generated specifications with a generated HISTORY: part of the declarations, new parameter values, a new method
    object come after a first transcription; the transcription that is finally used must be the one of the final
    specification (same oracle as for an OCP written in one go)"""
    from . import randspec
    out = []
    for i in range(NT if tier == "thorough" else NQ):
        kw = randspec.make(i)
        def fac(i=i):
            kw = randspec.make(i)
            ini, after = randspec.make_initial(i, kw)
            return Spec(late=randspec.make_late(i, kw), initial=ini, initial_after=after, concat=(i % 2 == 0), **kw)
        out.append(("R%03d-%s-history" % (i, kw["method"]), fac))
    return out


def _c09_generated(tier):
    """catalogue + generated specifications with parameters; every second one gets NEW parameter values after the first
    transcription (in-place update of the transcribed problem)"""
    from . import randspec
    out = list(c09(tier))
    for i in range(NT if tier == "thorough" else NQ):
        kw = randspec.make(i)
        if not (kw["params"] or kw["T"][0] == "param" or kw["t0"][0] == "param"):
            continue
        late = dict(pvals=True) if i % 2 else None
        out.append(("R%03d-%s%s" % (i, kw["method"], "-values-changed-after-transcription" if late else ""), (lambda i=i, late=late: Spec(late=late, **randspec.make(i)))))
        if i % 4 == 1:
            # ... and THEN guesses are given (set_initial on the transcribed problem): the new values stay
            def fac(i=i):
                kw = randspec.make(i)
                ini, _ = randspec.make_initial(i, kw)
                return Spec(late=dict(pvals=True), initial=ini, initial_after="all", **kw)
            out.append(("R%03d-%s-values-changed-then-guesses-given" % (i, kw["method"]), fac))
        if i % 4 == 2:
            out.append(("R%03d-%s-registered-symbols" % (i, kw["method"]), (lambda i=i: Spec(register="list", **randspec.make(i)))))
        if len([n for n in kw["params"].get("", []) if not isinstance(n, tuple)]) >= 2:
            out.append(("R%03d-%s-values-through-a-concatenation%s" % (i, kw["method"], "-also-after-transcription" if late else ""), (lambda i=i, late=late: Spec(late=late, concat=True, **randspec.make(i)))))
    for meth in ("MS", "SS", "DC"):
        for lt in (None, dict(pvals=True)):
            out.append(("%s-vector-values-through-a-concatenation%s" % (meth, "-also-after-transcription" if lt else ""),
                        _mk(method=meth, N=2, M=1, degree=2, params={"": [2, 1, 3]}, concat=True, late=lt, ode=E("f", None, ("x", "u", "p")),
                            constraints=[Con(E("c", 1, ("x", "p")), "le", 1.0)])))
    return out


NQ, NT = 80, 300
FAMILIES = dict(C10=_c10_generated, C13=_c13_generated,
                C01=_with_generated(c01, lambda kw: kw["method"] in ("MS", "SS"), NQ, NT, late=dict(ode=True), concat=True),
                C02=_with_generated(c02, lambda kw: kw["method"] == "DC", NQ, NT, late=dict(ode=True), concat=True),
                C04=_with_generated(c04, lambda kw: bool(kw["constraints"]), NQ, NT, late=dict(constraints=1)),
                C05=_with_generated(c05, lambda kw: bool(kw["objective"]), NQ, NT, late=dict(objective=1)),
                C06=_with_generated(c06, lambda kw: kw["grid"] != dict(kind="uniform"), NQ, NT),
                C09=_c09_generated,
                C11=_with_generated(c11, lambda kw: kw["T"][0] != "fixed" or kw["t0"][0] != "fixed", NQ, NT),
                C14=_with_generated(c14, lambda kw: bool(kw["scales"]) or any(c.scale != 1 for c in kw["constraints"]), NQ, NT))


def find(prop, label, tier="thorough"):
    for fam_tier in (tier, "thorough", "quick"):
        for lab, fac in FAMILIES[prop](fam_tier):
            if lab == label:
                return fac
    raise KeyError((prop, label))
