"""
Oracles: what the transcribed NLP must be, written from the PROPERTY STATEMENTS
(properties.jsonl), independently of rockit's formulas.  Input: a Spec and the handles of the
transcription (the decision variables rockit created); output: expected atomic constraint
rows, objective, starting point, parameter values.

Runs on both back ends (model casadi in the VC engine, real CasADi in native replays).
"""
import casadi as ca
from .spec import E, Con, Spec, inf
from .backend import MODEL


# ---------------------------------------------------------------------------------------
# handles: the representation the contracts speak about
# ---------------------------------------------------------------------------------------
class Handles:
    def __init__(self, spec, meth):
        self.spec, self.m = spec, meth
        N = spec.N
        self.N, self.M = N, spec.M
        self.T, self.t0 = ca.MX(meth.T), ca.MX(meth.t0)
        self.V = meth.V
        self.P = list(meth.P)
        self.U = list(meth.U)
        self.X = list(meth.X)
        self.P_control = [list(p) for p in meth.P_control]
        self.P_control_plus = [list(p) for p in meth.P_control_plus]
        self.V_control = [list(v) for v in meth.V_control]
        self.V_control_plus = [list(v) for v in meth.V_control_plus]
        self.T_local = list(getattr(meth, "T_local", []))
        self.t0_local = list(getattr(meth, "t0_local", []))

    def veccat(self, lst):
        return ca.veccat(*lst) if lst else None


def scaled_handles(spec, meth):
    """C14: (label, handle, declared scale column) for every quantity the user declared with a scale.
    Property: the physical quantity is scale * (its own solver variable), scale as given at the declaration."""
    N, M = spec.N, spec.M
    def col(key, sizes):
        parts = []
        for i, n in enumerate(sizes):
            sc = spec._scale(key, i, n)
            sc = ca.DM(sc)
            parts.append(ca.repmat(sc, n, 1) if sc.numel() == 1 and n != 1 else sc)
        return ca.vcat(parts) if parts else None
    out = []
    def blocks(bl):
        parts = []
        for key, i, n in bl:
            sc = ca.DM(spec._scale(key, i, n))
            parts.append(ca.repmat(sc, n, 1) if sc.numel() == 1 and n != 1 else sc)
        return ca.vcat(parts) if parts else None
    sx = blocks(spec.state_blocks())
    if sx is not None:
        for k in (range(N + 1) if spec.method != "SS" else [0]):
            out.append(("X[%d]" % k, meth.X[k], sx))
        if spec.method == "DC":
            for k in range(N):
                for i in range(M):
                    Xc = ca.MX(meth.Xc[k][i])
                    for j in range(Xc.shape[1]):
                        out.append(("Xc[%d][%d][:,%d]" % (k, i, j), Xc[:, j], sx))
    su = blocks(spec.control_blocks())
    if su is not None:
        for k in range(N):
            out.append(("U[%d]" % k, meth.U[k], su))
    sz = col("z", spec.algebraics)
    if sz is not None and spec.method == "DC":
        for k in range(N):
            for i in range(M):
                Zc = ca.MX(meth.Zc[k][i])
                for j in range(Zc.shape[1]):
                    out.append(("Zc[%d][%d][:,%d]" % (k, i, j), Zc[:, j], sz))
    sv = col("v", spec.variables.get("", []))
    if sv is not None:
        out.append(("V", ca.MX(meth.V)[:sv.numel()], sv))
    for kind, lst in (("control", meth.V_control), ("control+", meth.V_control_plus)):
        for i, n in enumerate(spec.variables.get(kind, [])):
            sc = ca.DM(spec._scale("v" + kind, i, n))
            sc = ca.repmat(sc, n, 1) if sc.numel() == 1 and n != 1 else sc
            for k in range(len(lst[i])):
                out.append(("V_%s[%d][%d]" % (kind, i, k), lst[i][k], sc))
    return out


# ---------------------------------------------------------------------------------------
# time grid  (C06)
# ---------------------------------------------------------------------------------------
def normalized_grid(grid, N):
    """declared normalised node locations n_0..n_N (python floats), from the property text"""
    kind = grid.get("kind", "uniform")
    if kind == "uniform":
        return [k / N for k in range(N + 1)]
    if kind == "geometric":
        g = grid.get("growth", 2.0)
        if not grid.get("local", False) and N > 1:
            g = g ** (1.0 / (N - 1))        # last interval = growth * first
        h = [g ** k for k in range(N)]
        tot = sum(h)
        out = [0.0]
        for k in range(N):
            out.append(out[-1] + h[k] / tot)
        out[-1] = 1.0
        return out
    raise ValueError(kind)


def _ratio(k, N):
    if MODEL:
        from fractions import Fraction
        return Fraction(k, N)
    return k / N


def time_grid(spec, H):
    """node times t_0..t_N in terms of the handles.
    Uniform: t0 + T*k/N.  Other fixed grids: t0 + T*n_k with n = the grid object's own
    normalized(N) -- that function has its own contract (C06: n_0=0, n_N=1, ratios)."""
    g = spec.grid
    N = spec.N
    if g.get("localize_t0"):
        return [ca.MX(H.t0)] + [ca.MX(H.t0_local[k]) for k in range(1, N + 1)]
    if g.get("localize_T") or g.get("kind") == "free":
        ts = [ca.MX(H.t0)]
        for k in range(N):
            ts.append(ts[-1] + H.T_local[k])
        return ts
    if g.get("kind", "uniform") == "uniform":
        return [H.t0 + H.T * _ratio(k, N) if k else ca.MX(H.t0) for k in range(N + 1)]
    n = H.m.time_grid.normalized(N)
    return [H.t0 + H.T * n[k] for k in range(N + 1)]


# ---------------------------------------------------------------------------------------
# environments
# ---------------------------------------------------------------------------------------
class Env:
    """values of the ingredients of user expressions at one point"""

    def __init__(self, spec, H, ts):
        self.spec, self.H, self.ts = spec, H, ts

    def base(self, k_interval, node=None):
        """per-interval and global quantities; k_interval in 0..N-1; node in 0..N for '+' lists"""
        H = self.H
        k = k_interval
        j = k if node is None else node
        d = {}
        d["p"] = H.veccat(H.P[:len(self.spec.params.get("", []))])      # the user's own global parameters (a parametric T / t0 adds further ones behind them)
        d["pc"] = H.veccat([p[k] for p in H.P_control])
        d["pcp"] = H.veccat([p[j] for p in H.P_control_plus])
        nv = sum(self.spec.variables.get("", []))        # the user's own global variables come first;
        d["v"] = ca.MX(H.V)[:nv] if nv else None          # a free T / t0 adds further ones behind them
        d["vc"] = H.veccat([v[k] for v in H.V_control])
        d["vcp"] = H.veccat([v[j] for v in H.V_control_plus])
        d["T"], d["t0"] = H.T, H.t0
        d["u"] = H.U[k] if ca.MX(H.U[k]).numel() else None
        d["DT_control"] = self.ts[k + 1] - self.ts[k]
        d["DT"] = d["DT_control"] / H.M
        return d

    def node(self, j, xs, zs=None, xq=None):
        """control node j (0..N); final node takes the last interval's per-interval values"""
        N = self.H.N
        k = min(j, N - 1)
        d = self.base(k, node=j)
        d["x"] = xs[j]
        d["t"] = self.ts[j]
        d["z"] = None if zs is None else zs[j]
        d["xq"] = xq
        return d


def getter(spec, env_of_shift, j):
    """atom -> value at node j, honouring ('off', atom, o) by looking at node j+o"""
    def get(a):
        if isinstance(a, tuple) and a[0] == "off":
            return env_of_shift(j + a[2])[a[1]]
        return env_of_shift(j)[a]
    return get


# ---------------------------------------------------------------------------------------
# explicit one-step schemes (C01, C03)  -- textbook tableaux
# ---------------------------------------------------------------------------------------
RK4 = dict(c=[0.0, 0.5, 0.5, 1.0],
           A=[[0, 0, 0, 0], [0.5, 0, 0, 0], [0, 0.5, 0, 0], [0, 0, 1.0, 0]],
           b=[1 / 6.0, 2 / 6.0, 2 / 6.0, 1 / 6.0])
EULER = dict(c=[0.0], A=[[0]], b=[1.0])


def erk_step(tab, f, x, t, h):
    """one explicit Runge-Kutta step of the augmented system; f(t,x)->(ode, quad)"""
    ks, qs = [], []
    for i, ci in enumerate(tab["c"]):
        xi = x
        for j in range(i):
            a = tab["A"][i][j]
            if a:
                xi = xi + (h * a) * ks[j]
        o, q = f(t + ci * h if ci else t, xi)
        ks.append(o)
        qs.append(q)
    xn = x
    qn = 0
    if tab is RK4:
        # same weights, written as the classical h/6 (k1 + 2 k2 + 2 k3 + k4)
        xn = x + h / 6 * (ks[0] + 2 * ks[1] + 2 * ks[2] + ks[3])
        qn = h / 6 * (qs[0] + 2 * qs[1] + 2 * qs[2] + qs[3]) if qs[0] is not None else None
    else:
        xn = x + h * ks[0]
        qn = h * qs[0] if qs[0] is not None else None
    return xn, qn, ks, qs


def _inf_mask(b):
    """which entries of a numeric bound are infinite (None: a parametric / symbolic bound has none)"""
    if isinstance(b, ca.MX):
        return None
    try:
        d = ca.DM(b)
        vals = [float(v) for v in (d.e if hasattr(d, "e") else __import__("numpy").array(d).reshape(-1))]
    except Exception:
        return None
    return [abs(v) == float("inf") for v in vals]


class Oracle:
    def __init__(self, spec, meth):
        self.spec = spec
        E.VIEW = spec.view()          # row selections of the user's atoms in the full state / control vectors (higher-order controls)
        self.H = Handles(spec, meth)
        self.ts = time_grid(spec, self.H)
        self.env = Env(spec, self.H, self.ts)
        self.rows = []        # dict(tag, kind('eq'/'le'), r)   atomic residual rows
        self.notes = []
        self.quad_exprs = []  # integrands (E) accumulated by integral()

    # -- user functions on values -------------------------------------------------------
    def rhs(self, d):
        """declared right-hand side at the values in d (d['x'], d['u']: FULL state / control vectors)"""
        s = self.spec
        nx = sum(s.states)
        user = E(s.ode.name, nx, s.ode.deps).on(lambda a: d[a])
        if not s.hoc:
            return user
        # integrator chains of the higher-order controls: w0' = w1, ..., w_{k-1}' = helper control
        X, U = ca.MX(d["x"]), ca.MX(d["u"])
        rows, xo, uo = [user], nx, sum(s.controls)
        for n, k in s.hoc:
            for i in range(k):
                rows.append(X[xo + (i + 1) * n: xo + (i + 2) * n] if i + 1 < k else U[uo:uo + n])
            xo += n * k
            uo += n
        return ca.vcat(rows)

    def block_scales(self, blocks, der=False):
        out = []
        for key, i, n in blocks:
            sc = self.spec._scale("der" if (der and key == "x") else key, i, n) if not (der and key == "w") else 1
            out.append(ca.DM.ones(n, 1) * sc)
        return ca.vcat(out) if out else ca.DM.zeros(0, 1)

    def alg(self, d):
        s = self.spec
        return E(s.alg.name, sum(s.algebraics), s.alg.deps).on(lambda a: d[a])

    def integrands(self):
        return [t[1] for t in self.spec.objective if t[0] == "integral" and (len(t) < 3 or t[2].get("grid", "inf") == "inf")]

    # -- shooting -----------------------------------------------------------------------
    def propagate(self, k, x0):
        """M steps of the chosen scheme over control interval k from x0.
        returns list of integrator-point states [x_{k,0}..x_{k,M}], per-step quadrature
        increments of each integrand, and per-step stage data"""
        s, H = self.spec, self.H
        tab = RK4 if s.intg == "rk" else EULER
        h = (self.ts[k + 1] - self.ts[k]) / s.M
        base = self.env.base(k)
        ints = self.integrands()

        def f(t, x):
            d = dict(base)
            d["x"], d["t"], d["z"] = x, t, None
            q = [e.on(lambda a: d[a]) for e in ints]
            return self.rhs(d), (ca.vcat(q) if q else None)

        xs = [x0]
        dq = []
        for i in range(s.M):
            t = self.ts[k] + i * h if i else self.ts[k]
            if s.discrete:
                d = dict(base)
                d["x"], d["t"] = xs[-1], t
                d["DT"], d["DT_control"] = h, self.ts[k + 1] - self.ts[k]
                xn = self.rhs(d)
                qn = None
            else:
                xn, qn, _, _ = erk_step(tab, f, xs[-1], t, h)
            xs.append(xn)
            dq.append(qn)
        return xs, dq

    def node_states(self):
        """states at the control nodes, integrator points, and running quadratures"""
        s, H = self.spec, self.H
        N, M = s.N, s.M
        if s.method == "MS":
            X = [ca.MX(x) for x in H.X]
        else:
            X = [ca.MX(H.X[0])]
        xk, Q = [], [0]
        for k in range(N):
            xs, dq = self.propagate(k, X[k])
            xk.append(xs)
            if s.method == "SS":
                X.append(xs[-1])
            q = Q[-1]
            for e in dq:
                if e is not None:
                    q = q + e
            Q.append(q)
        return X, xk, Q

    def add(self, tag, kind, r, scale=1):
        r = ca.MX(r)
        sc = ca.MX(ca.DM(scale)) if not isinstance(scale, (ca.MX,)) else scale
        if not (sc.numel() == 1 and sc.is_one()):
            r = r / sc
        self.rows.append(dict(tag=tag, kind=kind, r=r))

    def scale_vec(self, key, sizes):
        out = []
        for i, n in enumerate(sizes):
            s = self.spec._scale(key, i, n)
            out.append(ca.DM.ones(n, 1) * s)
        return ca.vcat(out) if out else ca.DM.zeros(0, 1)

    # -- constraints --------------------------------------------------------------------
    def add_constraint_at(self, c, ci, tag, get):
        e = ca.MX(c.expr.on(get))
        sc = getattr(c, "scale_value", c.scale)
        rhs, lhs = Con.bound(c.rhs, get), Con.bound(c.lhs, get)

        def side(tg, sign, b):
            """one row per component that HAS a bound on this side (an infinite entry bounds nothing), divided by its scale"""
            mask = _inf_mask(b)
            b = ca.MX(ca.DM(b)) if not isinstance(b, ca.MX) else b
            if b.numel() == 1 and e.numel() > 1:
                b = ca.repmat(b, e.numel(), 1)
            scv = ca.MX(ca.DM(sc)) if not isinstance(sc, ca.MX) else sc
            keep = [i for i in range(e.numel()) if not (mask and mask[i if len(mask) > 1 else 0])]
            if len(keep) == e.numel():
                self.add(tg, "le", sign * (e - b), sc)
                return
            for i in keep:
                self.add(tg + ("component", i), "le", sign * (e[i] - b[i]), scv if scv.numel() == 1 else scv[i])
            if c.kind != "box":
                # a component without any bound is still a (free) row of the NLP
                for i in range(e.numel()):
                    if i not in keep:
                        self.add(tg + ("unbounded-component", i), "free", e[i], scv if scv.numel() == 1 else scv[i])
        if c.kind == "le":
            side(tag, 1, rhs)
        elif c.kind == "ge":
            side(tag, -1, rhs)
        elif c.kind == "eq":
            self.add(tag, "eq", e - rhs, sc)
        elif c.kind == "box":
            side(tag + ("lb",), -1, lhs)
            side(tag + ("ub",), 1, rhs)

    def is_signal(self, c):
        sig = {"x", "u", "z", "t", "pc", "pcp", "vc", "vcp", "DT", "DT_control"}
        def s(a):
            return (a[1] in sig) if isinstance(a, tuple) else a in sig
        sig = sig | {"w"}
        have = {"x": self.spec.states, "u": self.spec.controls, "w": self.spec.hoc, "z": self.spec.algebraics,
                "pc": self.spec.params.get("control"), "pcp": self.spec.params.get("control+"),
                "vc": self.spec.variables.get("control"), "vcp": self.spec.variables.get("control+")}
        for a in c.expr.deps:
            base = a[1] if isinstance(a, tuple) else a
            if s(a) and (have.get(base, True)):
                return True
        return False

    def expected(self):
        """fill self.rows / self.objective from the property statements C01, C04, C05"""
        s, H = self.spec, self.H
        N, M = s.N, s.M
        if s.method == "DC":
            return self.expected_dc()
        X, xk, Q = self.node_states()
        self.X, self.xk, self.Q = X, xk, Q
        scale_x = self.block_scales(s.state_blocks())
        # C01: one gap-closing row per interval, residual = node state - propagated state
        if s.method == "MS":
            for k in range(N):
                self.add(("gap", k), "eq", X[k + 1] - xk[k][-1], scale_x)

        def node_env(j):
            if not 0 <= j <= N:
                raise IndexError(j)
            return self.env.node(j, X, xq=Q[j] if Q else None)

        self.node_env = node_env
        self.path_rows(node_env, xk)
        self.time_rows()
        self.objective_terms(node_env, Q)
        return self

    def time_rows(self):
        """C11: a free horizon contributes exactly T >= 0 (nothing for a free t0)"""
        if self.spec.T[0] == "free":
            self.add(("T>=0",), "le", -self.H.T)

    def path_rows(self, node_env, xk):
        s = self.spec
        N, M = s.N, s.M
        for ci, c in enumerate(s.constraints):
            grid = c.grid
            if grid is None:
                grid = "control" if self.is_signal(c) else "point"
            if not self.is_signal(c):
                grid = "point"
            if grid == "point":
                # boundary / point constraint: once; at_t0/at_tf operands are expressed by
                # atoms ('at', 't0'|'tf', atom)
                self.add_constraint_at(c, ci, ("point", ci), self.point_getter(node_env))
            elif grid == "control":
                for j in range(N + 1):
                    if j == 0 and not c.include_first:
                        continue
                    if j == N and not c.include_last:
                        continue
                    try:
                        get = getter(s, node_env, j)
                        for a in c.expr.deps:          # instance exists iff all shifted operands are inside the horizon
                            if isinstance(a, tuple) and a[0] == "off":
                                node_env(j + a[2])
                        self.add_constraint_at(c, ci, ("control", ci, j), get)
                    except IndexError:
                        pass
            elif grid == "integrator":
                for k in range(N):
                    for l in range(M):
                        if k == 0 and l == 0 and not c.include_first:
                            continue
                        d = self.integrator_env(k, l, xk)
                        self.add_constraint_at(c, ci, ("integrator", ci, k, l), lambda a, d=d: d[a])
                if c.include_last:
                    self.add_constraint_at(c, ci, ("integrator", ci, N, 0), getter(s, node_env, N))
            else:
                raise ValueError("oracle has no placement rule for grid %r" % grid)

    def integrator_env(self, k, l, xk):
        d = self.env.base(k)
        h = (self.ts[k + 1] - self.ts[k]) / self.spec.M
        d["x"] = xk[k][l]
        d["t"] = self.ts[k] + l * h if l else self.ts[k]
        zk = getattr(self, "zk", None)
        d["z"] = zk[k][l] if zk else None
        d["xq"] = None
        return d

    def point_getter(self, node_env):
        N = self.spec.N
        def get(a):
            if isinstance(a, tuple) and a[0] == "at":
                j = 0 if a[1] == "t0" else N
                return node_env(j)[a[2]]
            return node_env(0)[a]       # only global quantities are meaningful here
        return get

    # -- objective (C05) ----------------------------------------------------------------
    def objective_terms(self, node_env, Q):
        s = self.spec
        N = s.N
        J = 0
        qi = 0
        self.terms = []
        for term in s.objective:
            kind, ex = term[0], term[1]
            opts = term[2] if len(term) > 2 else {}
            if kind == "at_t0":
                v = ex.on(getter(s, node_env, 0))
            elif kind == "at_tf":
                v = ex.on(getter(s, node_env, N))
            elif kind == "sum":
                v = 0
                last = N + 1 if opts.get("include_last") else N
                for j in range(last):
                    v = v + ex.on(getter(s, node_env, j))
            elif kind == "integral" and opts.get("grid", "inf") == "control":
                v = 0
                for k in range(N):
                    v = v + (self.ts[k + 1] - self.ts[k]) * ex.on(getter(s, node_env, k))
            elif kind == "integral":
                v = Q[N][qi] if not isinstance(Q[N], int) else 0
                qi += 1
            elif kind == "value":
                v = ex.on(self.point_getter(node_env))
            self.terms.append((kind, ex.name, v))
            J = J + v
        self.J = ca.MX(J)

    # -- direct collocation (C02) -------------------------------------------------------
    def expected_dc(self):
        s, H, m = self.spec, self.H, self.H.m
        N, M, d = s.N, s.M, s.degree
        tau = [float(t) for t in m.tau]
        C, D, B = ca.DM(m.C), ca.DM(m.D), ca.DM(m.B)
        X = [ca.MX(x) for x in H.X]
        scale_x = self.block_scales(s.state_blocks())
        scale_der = self.block_scales(s.state_blocks(), der=True)
        scale_z = self.scale_vec("z", s.algebraics)
        nz = sum(s.algebraics)
        ints = self.integrands()
        q = [0 for _ in ints]
        Q = [list(q)]
        xk = []
        self.roots = {}
        # algebraic variables exist at the collocation times only; their value at a grid point is the value there of the
        # polynomial through the collocation-time values of the step that STARTS at that point (the final node: of the
        # last step, at its end).  Lagrange weights on tau_1..tau_d at 0 and at 1, in the back end's own arithmetic.
        tau_dm = [ca.DM(t) for t in m.tau]
        def lag_w(at):
            w = []
            for r in range(d):
                v = ca.DM(1)
                for q_ in range(d):
                    if q_ != r:
                        v = v * ((at - tau_dm[q_]) / (tau_dm[r] - tau_dm[q_]))
                w.append(v)
            return w
        w0, w1 = lag_w(ca.DM(0)), lag_w(ca.DM(1))
        zk = []
        for k in range(N):
            dt = (self.ts[k + 1] - self.ts[k]) / M
            base = self.env.base(k)
            xs = []
            zs_k = []
            for i in range(M):
                Xc = ca.MX(m.Xc[k][i])          # [start | helper states]
                Zc = ca.MX(m.Zc[k][i])
                xs.append(Xc[:, 0])
                zs_k.append(sum((Zc[:, r] * w0[r] for r in range(d)), ca.MX.zeros(nz, 1)) if nz else None)
                t_start = self.ts[k] + i * dt if i else self.ts[k]
                for j in range(d):
                    # derivative of the interpolating polynomial at tau_j (per unit physical time)
                    Pdot = 0
                    for r in range(d + 1):
                        Pdot = Pdot + Xc[:, r] * C[r, j]
                    Pdot = Pdot / dt
                    e = dict(base)
                    e["x"], e["t"] = Xc[:, j + 1], t_start + dt * tau[j]
                    e["z"] = Zc[:, j] if nz else None
                    e["xq"] = None
                    self.roots[(k, i, j)] = e
                    self.add(("defect", k, i, j), "eq", Pdot - self.rhs(e), scale_der)
                    if nz:
                        self.add(("alg", k, i, j), "eq", self.alg(e), scale_z)
                    for n_, ex in enumerate(ints):
                        # collocation quadrature: weight B_j, step length dt
                        q[n_] = q[n_] + ex.on(lambda a, e=e: e[a]) * dt * B[j]
                # end value of the polynomial equals the next start state
                Pend = 0
                for r in range(d + 1):
                    Pend = Pend + Xc[:, r] * D[r]
                x_next = X[k + 1] if i == M - 1 else ca.MX(m.Xc[k][i + 1])[:, 0]
                self.add(("continuity", k, i), "eq", Pend - x_next, scale_x)
            xs.append(X[k + 1])
            xk.append(xs)
            zk.append(zs_k)
            Q.append(list(q))
        self.X, self.xk, self.zk = X, xk, zk
        Qv = [ca.vcat(qq) if qq else 0 for qq in Q]
        Zn = None
        if nz:
            ZcL = ca.MX(m.Zc[N - 1][M - 1])
            Zn = [zk[k][0] for k in range(N)] + [sum((ZcL[:, r] * w1[r] for r in range(d)), ca.MX.zeros(nz, 1))]

        def node_env(j):
            if not 0 <= j <= N:
                raise IndexError(j)
            return self.env.node(j, X, zs=Zn, xq=None)

        self.node_env = node_env
        self.path_rows_dc(node_env, xk)
        self.time_rows()
        self.objective_terms(node_env, Qv)
        return self

    def path_rows_dc(self, node_env, xk):
        s = self.spec
        pend = [c for c in s.constraints if c.grid == "integrator_roots"]
        keep = [c for c in s.constraints if c.grid != "integrator_roots"]
        saved = s.constraints
        # integrator_roots: every collocation time
        for ci, c in enumerate(saved):
            if c.grid == "integrator_roots" and self.is_signal(c):
                for (k, i, j), e in sorted(self.roots.items()):
                    self.add_constraint_at(c, ci, ("roots", ci, k, i, j), lambda a, e=e: e[a])
        idx = [ci for ci, c in enumerate(saved) if c.grid != "integrator_roots" or not self.is_signal(c)]
        s.constraints = [saved[i] for i in idx]
        try:
            n0 = len(self.rows)
            self.path_rows(node_env, xk)
            # restore the original constraint indices in the tags
            for r in self.rows[n0:]:
                t = list(r["tag"])
                t[1] = idx[t[1]]
                r["tag"] = tuple(t)
        finally:
            s.constraints = saved


# ---------------------------------------------------------------------------------------
# starting point (C10)
# ---------------------------------------------------------------------------------------
def guessed_times(spec, H, guesses):
    """node times implied by the guessed t0 and T"""
    def horizon(key, kind):
        g = guesses.get(key)
        if g is not None:
            return ca.MX(ca.DM(g))
        if kind[0] == "free":
            return ca.MX(ca.DM(kind[1] if kind[1] != "unknown" else spec.free_guess[key]))
        return ca.MX(H.T if key == "T" else H.t0)      # number / parameter value
    T = horizon("T", spec.T)
    t0 = horizon("t0", spec.t0)
    N = spec.N
    if spec.grid.get("kind", "uniform") in ("uniform", "free"):
        n = [_ratio(k, N) for k in range(N + 1)]        # a free grid starts from the uniform partition of the guessed horizon
    else:
        n = H.m.time_grid.normalized(N)
    return [t0 + T * n[k] if k else t0 for k in range(N + 1)], T, t0


def expected_initial(spec, meth, values):
    """list of (label, handle expression, expected physical starting value).
    `values`: target -> realised guess (as passed to ocp.set_initial), last call wins."""
    H = Handles(spec, meth)
    N, M = spec.N, spec.M
    last = {}
    for tgt, val in values:
        last[tgt] = val
    guesses = {k: v for k, v in last.items() if k in ("T", "t0")}
    ts, Tg, t0g = guessed_times(spec, H, guesses)
    out = []

    def value_at(val, point, t, ncols_node=True):
        """guess semantics: constant / column / time expression"""
        if isinstance(val, E):
            return val.on(lambda a: {"t": t}[a])
        v = ca.DM(val) if not isinstance(val, (ca.DM, ca.MX)) else val
        return v

    def column(v, n, j_interval, j_node, per_interval):
        v = ca.MX(v)
        if v.numel() == n or v.numel() == 1:
            return v if v.numel() == n else ca.repmat(v, n, 1)
        if v.shape[0] != n and v.shape[1] == n:
            v = v.T
        cols = v.shape[1]
        j = j_interval if per_interval else j_node
        if cols == N + 1:
            return v[:, j]
        if cols == N:
            return v[:, min(j, N - 1)]
        raise ValueError("guess with %d columns" % cols)

    def block(expr, off, n):
        return ca.MX(expr)[off:off + n]

    # states
    off = 0
    nodes = range(N + 1) if spec.method != "SS" else range(1)
    for key_, i, n in spec.state_blocks():
        val = last.get(("x", i)) if key_ == "x" else None
        for j in nodes:
            h = block(H.X[j], off, n)
            if val is None:
                exp = ca.DM.zeros(n)
            elif isinstance(val, E):
                exp = val.on(lambda a, j=j: {"t": ts[j]}[a])
            else:
                exp = column(val, n, min(j, N - 1), j, False)
            out.append(((key_, i, "node", j, off), h, exp))
        off += n
    # controls (per interval, time expressions at the interval's start time)
    off = 0
    for key_, i, n in spec.control_blocks():
        val = last.get(("u", i)) if key_ == "u" else None
        for k in range(N):
            h = block(H.U[k], off, n)
            if val is None:
                exp = ca.DM.zeros(n)
            elif isinstance(val, E):
                exp = val.on(lambda a, k=k: {"t": ts[k]}[a])
            else:
                exp = column(val, n, k, k, True)
            out.append(((key_, i, "interval", k, off), h, exp))
        off += n
    # variables
    offg = 0
    for i, n in enumerate(spec.variables.get("", [])):
        val = last.get((("v", ""), i))
        h = block(H.V, offg, n)
        exp = ca.DM.zeros(n) if val is None else column(val, n, 0, 0, True)
        out.append((("v", i), h, exp))
        offg += n
    for i, n in enumerate(spec.variables.get("control", [])):
        val = last.get((("v", "control"), i))
        for k in range(N):
            h = ca.MX(H.V_control[i][k])
            if val is None:
                exp = ca.DM.zeros(n)
            elif isinstance(val, E):
                exp = val.on(lambda a, k=k: {"t": ts[k]}[a])
            else:
                exp = column(val, n, k, k, True)
            out.append((("vc", i, "interval", k), h, exp))
    for i, n in enumerate(spec.variables.get("control+", [])):
        val = last.get((("v", "control+"), i))
        for j in range(N + 1):
            h = ca.MX(H.V_control_plus[i][j])
            if val is None:
                exp = ca.DM.zeros(n)
            elif isinstance(val, E):
                exp = val.on(lambda a, j=j: {"t": ts[j]}[a])
            else:
                exp = column(val, n, min(j, N - 1), j, False)
            out.append((("vcp", i, "node", j), h, exp))
    # local horizons / local start times of the localized formulations: the partition implied by the guesses
    g = spec.grid
    if g.get("localize_T") or g.get("kind") == "free":
        for k in range(N):
            out.append((("T_local", k), ca.MX(H.T_local[k]), ts[k + 1] - ts[k]))
    if g.get("localize_t0"):
        for k in range(1, N + 1):
            out.append((("t0_local", k), ca.MX(H.t0_local[k]), ts[k]))
    # horizon
    if spec.T[0] == "free":
        out.append((("T",), H.T, Tg))
    if spec.t0[0] == "free":
        out.append((("t0",), H.t0, t0g))
    # algebraic variables under the shooting methods are not decision variables: their guess is the start value Z0[k] that
    # the DAE integrator's root finder gets on interval k (physical units; time expressions at the interval's start time)
    if spec.method != "DC" and spec.algebraics and getattr(meth, "Z0", None):
        off = 0
        for i, n in enumerate(spec.algebraics):
            val = last.get(("z", i))
            for k in range(N if spec.method == "MS" else 1):
                if meth.Z0[k] is None:
                    break
                h = ca.MX(meth.Z0[k])[off:off + n]
                if val is None:
                    exp = ca.DM.zeros(n)
                elif isinstance(val, E):
                    exp = val.on(lambda a, k=k: {"t": ts[k]}[a])
                else:
                    exp = column(val, n, k, k, True)
                out.append((("z", i, "rootfinder-start", k), h, exp))
            off += n
    # helper states of direct collocation
    if spec.method == "DC":
        m = meth
        tau = [float(t) for t in m.tau]
        off = 0
        for key_, i, n in spec.state_blocks():
            val = last.get(("x", i)) if key_ == "x" else None
            for k in range(N):
                dt = (ts[k + 1] - ts[k]) / M
                for l in range(M):
                    Xc = ca.MX(m.Xc[k][l])
                    for j in range(spec.degree + 1):
                        if j == 0 and l == 0:
                            continue
                        h = Xc[off:off + n, j]
                        tt = ts[k] + l * dt + (dt * tau[j - 1] if j else 0)
                        if val is None:
                            exp = ca.DM.zeros(n)
                        elif isinstance(val, E):
                            exp = val.on(lambda a, tt=tt: {"t": tt}[a])
                        else:
                            exp = column(val, n, k, k, True)
                        out.append(((key_, i, "helper", k, l, j, off), h, exp))
            off += n
        # algebraic variables exist at the collocation times: constants everywhere, time expressions at those times
        off = 0
        for i, n in enumerate(spec.algebraics):
            val = last.get(("z", i))
            for k in range(N):
                dt = (ts[k + 1] - ts[k]) / M
                for l in range(M):
                    Zc = ca.MX(m.Zc[k][l])
                    for j in range(spec.degree):
                        h = Zc[off:off + n, j]
                        tt = ts[k] + l * dt + dt * tau[j]
                        if val is None:
                            exp = ca.DM.zeros(n)
                        elif isinstance(val, E):
                            exp = val.on(lambda a, tt=tt: {"t": tt}[a])
                        else:
                            exp = column(val, n, k, k, True)
                        out.append((("z", i, "collocation", k, l, j), h, exp))
            off += n
    return out
