"""
Backend shim: the spec builder and the oracles are written against the CasADi API only, so
the same code runs
  * in the VC engine  (python3-vt, `casadi` = /verif/model/casadi, values are z3 terms,
    user functions are UNINTERPRETED), and
  * natively          (/venv/bin/python, real CasADi 3.8.1, user functions are fixed
    pseudo-random polynomials)  -- used to replay counterexamples on the real code.
"""
import hashlib
import casadi as ca

MODEL = ca.__version__.endswith("-model")

if MODEL:
    import z3
    _R = z3.RealSort()
    _FUNS = {}

    def ufun(name, nout, args):
        """uninterpreted vector function of the entries of `args` (list of matrices)"""
        flat = []
        for a in args:
            a = ca._coerce(a)
            flat.extend(ca.tz(x) for x in a.e)
        out = []
        for i in range(nout):
            key = (name, i, len(flat))
            if key not in _FUNS:
                _FUNS[key] = z3.Function("%s_%d" % (name, i), *([_R] * (len(flat) + 1)))
            f = _FUNS[key]
            out.append(f(*flat) if flat else f())
        return ca.MX._raw(nout, 1, out)

    def unknown(name, n=1, m=1, positive=False):
        """universally quantified numeric value(s) (DM with symbolic entries)"""
        from vc.core import ctx
        es = [z3.Real("%s_%d" % (name, i)) for i in range(n * m)]
        if positive:
            for e in es:
                ctx().assume(e > 0)
                ca._POSITIVE.add(e.decl().name())
        return ca.DM._raw(n, m, es)

    def upartials(name, nout, args_list):
        """dE_o/d(arg entry j) of the uninterpreted function `name`, as the model names it (<name>_<o>__d<j> applied to the
        same arguments): out[o][j]"""
        flat = []
        for a in args_list:
            flat.extend(ca.tz(x) for x in ca._coerce(a).e)
        out = []
        for o in range(nout):
            decl = z3.Function("%s_%d" % (name, o), *([z3.RealSort()] * (len(flat) + 1)))
            out.append([ca.MX._raw(1, 1, [ca._dfun(decl, j)(*flat)]) for j in range(len(flat))])
        return out

else:
    import numpy as np

    def upartials(name, nout, args_list):
        """partial derivatives of the fixed polynomial standing for `name`, evaluated at the given arguments: out[o][j]"""
        syms = [ca.MX.sym("a%d" % i, ca.MX(a).shape[0], ca.MX(a).shape[1]) for i, a in enumerate(args_list)]
        J = ca.jacobian(ufun(name, nout, syms), ca.veccat(*syms))
        Jv = ca.Function("J", syms, [J])(*[ca.MX(a) for a in args_list])
        return [[Jv[o, j] for j in range(Jv.shape[1])] for o in range(nout)]

    def _coeffs(name, i, n):
        h = hashlib.sha256(("%s/%d/%d" % (name, i, n)).encode()).digest()
        rs = np.random.RandomState(int.from_bytes(h[:4], "little"))
        return rs.uniform(-1, 1, size=n), rs.uniform(-0.5, 0.5, size=(n, n)), rs.uniform(-1, 1)

    def ufun(name, nout, args):
        flat = ca.veccat(*[ca.MX(a) for a in args]) if args else ca.MX(0, 1)
        n = flat.numel()
        out = []
        for i in range(nout):
            c, Q, d = _coeffs(name, i, n)
            e = ca.MX(d)
            if n:
                e = e + ca.mtimes(ca.DM(c).T, flat) + ca.mtimes(flat.T, ca.mtimes(ca.DM(np.triu(Q)), flat))
            out.append(e)
        return ca.vcat(out)

    _UNKNOWN_VALUES = {}

    def unknown(name, n=1, m=1, positive=False):
        h = hashlib.sha256(name.encode()).digest()
        rs = np.random.RandomState(int.from_bytes(h[:4], "little"))
        v = rs.uniform(0.5, 2.0, size=(n, m)) if positive else rs.uniform(-1.5, 2.0, size=(n, m))
        v = np.round(v, 3)
        _UNKNOWN_VALUES[name] = v
        return ca.DM(v)
