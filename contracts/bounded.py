"""
Bounded-structure obligations (engine side): the REAL rockit pipeline is executed on the casadi
model for one concrete structure (method, N, M, dimensions, grid kind) with every number and
every user function universally quantified, and the ghost NLP is compared with the oracle.
Discharged by z3, but *bounded in structure*: reported under `bounded`, never as proved.
"""
import z3
import casadi as ca
from vc.core import ctx, Undecided
from . import nlp
from .oracle import Oracle, time_grid, normalized_grid

MOD = {"MS": "multiple_shooting:MultipleShooting", "SS": "single_shooting:SingleShooting",
       "DC": "direct_collocation:DirectCollocation"}


def func_of(spec, tag):
    m = MOD[spec.method]
    t = tag[0]
    if t == "gap":
        return m + ".add_constraints:ensures:gap-residual"
    if t in ("defect", "alg", "continuity"):
        return m + ".add_constraints:ensures:collocation-" + t
    if t in ("control", "integrator", "roots"):
        return m + ".add_constraints:ensures:placement-" + t
    if t == "point":
        return "sampling_method:SamplingMethod.add_constraints_after:ensures:point-once"
    if t == "T>=0":
        return "direct_method:DirectMethod.fill_placeholders_T:ensures:T-nonneg"
    return m + ".add_constraints:ensures:" + str(t)


def check_init(inst, spec, meth, opti, label=""):
    """C10: every solver variable starts at the user's guess (contracts/oracle.py:expected_initial), in physical units"""
    from .oracle import expected_initial
    c = ctx()
    start = list(opti.initial())        # rockit's OptiWrapper.initial() already carries the parameter values
    have = {str(x) for eq in start for x in ca.MX(eq.dep(1)).e}
    start += [eq for eq in opti.value_parameters() if not ({str(x) for x in ca.MX(eq.dep(1)).e} & have)]
    for tag, handle, exp in expected_initial(spec, meth, spec.initial_realised):
        name = "%s|%s.set_initial:ensures:start[%s%s]" % (inst, MOD[spec.method] if spec.method == "DC" else "sampling_method:SamplingMethod", label, "/".join(str(t) for t in tag))
        try:
            got = opti.value(handle, start)
        except RuntimeError as e:
            c.fail(name, "starting value cannot be read back: %s" % e)
            continue
        want = ca.MX(exp)
        if want.has_symbols():
            want = opti.value(want, start)          # a parametric horizon: the times implied by the parameter VALUES
        nlp.prove_equal(name, got, want)


def time_names(spec, meth, decision_only=False):
    """names of the opti symbols the time grid is made of (decision_only: without horizon PARAMETERS)"""
    names = set()
    for lst in (getattr(meth, "T_local", []), getattr(meth, "t0_local", [])):
        for e in lst:
            if e is None:
                continue
            for x in ca.MX(e).e:
                if not ca.isnum(x):
                    names |= {n for n in ca._consts(x) if n in ca._SYMS}
    for e in (meth.T, meth.t0):
        for x in ca.MX(e).e:
            if not ca.isnum(x):
                names |= {n for n in ca._consts(x) if n in ca._SYMS}
    # a horizon given by a PARAMETER is data, not a decision variable
    opti = getattr(spec, "opti", None)
    if opti is not None and decision_only:
        decision = {str(x) for v in opti._vars for x in v.e}
        names &= decision
    return names


def grid_spec_formula(spec, meth, orc, all_bounds=False):
    """C06 as a formula over the time handles: declared partition + min/max on every interval
    whose length is (a function of) a decision variable.
    For non-localised fixed grids the node times are t0 + T*n_k by construction (the normalised
    locations n_k have their own contract), so only end points and bounds remain."""
    g = spec.grid
    N = spec.N
    ts = orc.ts
    T, t0 = ca.MX(meth.T).e[0], ca.MX(meth.t0).e[0]
    f = []
    h = [ca.e_sub(ts[k + 1].e[0], ts[k].e[0]) for k in range(N)]
    kind = g.get("kind", "uniform")
    tn = time_names(spec, meth, decision_only=True)
    f.append(ca.tz(ts[0].e[0]) == ca.tz(t0))
    end_gap = ca.tz(ts[N].e[0]) - (ca.tz(t0) + ca.tz(T))
    localized = g.get("localize_T") or g.get("localize_t0") or kind == "free"
    if kind == "geometric":
        # irrational growth factors: float round-off in the grid's own numbers (A-FLOAT, 1e-9 relative)
        eps = z3.RealVal("1/1000000000")
        f.append(z3.And(end_gap <= eps * z3.If(ca.tz(T) >= 0, ca.tz(T), -ca.tz(T)), -end_gap <= eps * z3.If(ca.tz(T) >= 0, ca.tz(T), -ca.tz(T))))
    else:
        f.append(end_gap == 0)
    if localized and kind == "uniform":
        for k in range(N - 1):
            f.append(ca.tz(h[k + 1]) == ca.tz(h[k]))
    elif localized and kind == "geometric":
        gr = meth.time_grid.growth_factor(N)      # the grid object's own per-interval ratio (contract: C06 normalized/growth_factor)
        for k in range(N - 1):
            f.append(ca.tz(h[k + 1]) == ca.tz(ca.num(gr)) * ca.tz(h[k]))
    if g.get("localize_t0") and (g.get("localize_T") or kind == "free"):
        # both formulations present: the local horizons are the node differences
        for k in range(N):
            f.append(ca.tz(ca.MX(meth.T_local[k]).e[0]) == ca.tz(h[k]))
    lo, hi = g.get("min", 0), g.get("max", float("inf"))
    T_is_decision = (not ca.isnum(T)) and bool(ca._consts(T) & tn)
    if T_is_decision or kind == "free" or all_bounds:
        for k in range(N):
            if (ca.isnum(h[k]) or not (ca._consts(h[k]) & tn)) and not all_bounds:
                continue
            f.append(ca.tz(h[k]) >= ca.tz(ca.num(lo)))
            if hi != float("inf"):
                f.append(ca.tz(h[k]) <= ca.tz(ca.num(hi)))
    return z3.And(*f) if f else z3.BoolVal(True)


def rows_formula(rows):
    f = []
    for kind, r, _ in rows:
        if kind == "eq":
            f.append(ca.tz(r) == 0)
        elif kind == "le":
            f.append(ca.tz(r) <= 0)
    return z3.And(*f) if f else z3.BoolVal(True)


def handles_distinct(spec, meth, inst):
    """representation invariant the oracles rely on: the handles are pairwise distinct solver variables (times a
    scale); the only sharing is the declared one (start state of the first integration interval = node state)"""
    c = ctx()
    groups = []
    N, M = spec.N, spec.M
    if spec.method in ("MS", "DC"):
        for k in range(N + 1):
            groups.append(("X[%d]" % k, ca.MX(meth.X[k])))
    else:
        groups.append(("X[0]", ca.MX(meth.X[0])))
    for k in range(N):
        if ca.MX(meth.U[k]).numel():
            groups.append(("U[%d]" % k, ca.MX(meth.U[k])))
    if spec.method == "DC":
        for k in range(N):
            for i in range(M):
                Xc, Zc = ca.MX(meth.Xc[k][i]), ca.MX(meth.Zc[k][i])
                groups.append(("Xc[%d][%d] helper states" % (k, i), Xc[:, 1:]))
                if i > 0:
                    groups.append(("Xc[%d][%d] start state" % (k, i), Xc[:, 0]))
                if Zc.numel():
                    groups.append(("Zc[%d][%d]" % (k, i), Zc))
    seen = {}
    bad = None
    for label, m in groups:
        for e in m.e:
            if ca.isnum(e):
                bad = "%s has a constant entry" % label
                break
            names = [n for n in ca._consts(e) if n in ca._SYMS]
            if len(names) != 1:
                bad = "%s entry %s is not one solver variable times a scale" % (label, ca._short(e))
                break
            if names[0] in seen:
                bad = "%s and %s share the solver variable %s" % (seen[names[0]], label, names[0])
                break
            seen[names[0]] = label
        if bad:
            break
    name = "%s|%s.add_variables:ensures:handles-are-distinct-solver-variables" % (inst, MOD[spec.method])
    if bad:
        c.fail(name, bad)
    else:
        c.ok(name, detail="%d scalar decision variables behind %d handles" % (len(seen), len(groups)), backend="z3")


def check_nlp(spec, parts=("dynamics", "placement", "frame", "objective"), inst=None):
    """run the real pipeline on the model and record the obligations of `parts`"""
    c = ctx()
    inst = inst or spec.label or "inst"
    reject = getattr(spec, "expect_reject", None)
    try:
        spec.build()
        meth = spec.transcribe()
    except Exception as e:     # raised by the real rockit code (engine limits raise Undecided, a BaseException)
        import traceback
        tb = traceback.extract_tb(e.__traceback__)
        where = next((fr for fr in reversed(tb) if "/rockit/" in fr.filename), tb[-1])
        site = "%s:%s" % (where.filename.split("/rockit/")[-1].replace(".py", ""), where.name)
        if reject:
            c.ok("%s|%s:raises:%s" % (inst, site, reject), detail="rejected with %s: %s" % (type(e).__name__, str(e)[:120]), backend="z3")
            return None
        c.fail("%s|%s:safety:no-exception-on-valid-specification" % (inst, site), "%s: %s" % (type(e).__name__, str(e)[:300]))
        return None
    if reject:
        c.fail("%s|%s.add_constraints:raises:%s" % (inst, MOD[spec.method], reject), "specification silently transcribed; the method cannot represent it and must reject it")
        return None
    opti = spec.opti
    if spec.method != "DC" and spec.intg not in ("rk", "expl_euler"):
        if "init" not in parts:
            return None
        # builtin integrators are opaque step maps (A-INTG): only the starting values are specified here
        from .oracle import expected_initial
        start = list(opti.initial())
        have = {str(x) for eq in start for x in ca.MX(eq.dep(1)).e}
        start += [eq for eq in opti.value_parameters() if not ({str(x) for x in ca.MX(eq.dep(1)).e} & have)]
        for tag, handle, exp in expected_initial(spec, meth, spec.initial_realised):
            name = "%s|sampling_method:SamplingMethod.set_initial:ensures:start[%s]" % (inst, "/".join(str(t) for t in tag))
            try:
                got = opti.value(handle, start)
            except RuntimeError as e:
                c.fail(name, "starting value cannot be read back: %s" % e)
                continue
            want = ca.MX(exp)
            nlp.prove_equal(name, got, opti.value(want, start) if want.has_symbols() else want)
        return None
    if "dynamics" in parts:
        handles_distinct(spec, meth, inst)
    orc = Oracle(spec, meth).expected()
    emitted = nlp.emitted_rows(opti)
    expected = nlp.oracle_rows(orc)
    want = []
    for kind, r, tag in expected:
        t = tag[0]
        part = "dynamics" if t in ("gap", "defect", "alg", "continuity") else "placement"
        if t == "T>=0":
            part = "freetime"
        want.append((kind, r, tag, part))

    # match everything (so that 'nothing else' is meaningful), record what was asked for
    before = len(c.obligations)
    missing, extra = nlp.match_rows("@", emitted, [(k, r, t) for k, r, t, _ in want], prove_extra=False)
    new = c.obligations[before:]
    del c.obligations[before:]
    for ob, (k, r, tag, part) in zip(new, want):
        if part in parts or (part == "freetime" and ("placement" in parts or "freetime" in parts)):
            ob.name = "%s|%s[%s]" % (inst, func_of(spec, tag), "/".join(str(x) for x in tag[1:]) if len(tag) > 1 else "")
            c.obligations.append(ob)

    # rows not accounted for by any declaration: only grid-coupling rows may remain, and they
    # must be equivalent to the declared partition (C06)
    tn = time_names(spec, meth)
    foreign = []
    for k, r, org in extra:
        names = set() if ca.isnum(r) else {n for n in ca._consts(r) if n in ca._SYMS}
        if not names or not names <= tn:
            foreign.append((k, r, org))
    if "frame" in parts:
        name = "%s|%s.add_constraints:frame:nothing-else" % (inst, MOD[spec.method])
        if foreign:
            c.obligations.append(nlp._ob(name, "refuted", 0.0, "emitted rows that no declaration accounts for: " +
                                          "; ".join("%s %s" % (k, ca._short(r)) for k, r, _ in foreign[:3])))
        else:
            c.obligations.append(nlp._ob(name, "discharged", 0.0, "%d emitted atomic rows: %d matched declarations, %d are grid-coupling rows" % (len(emitted), len(emitted) - len(extra), len(extra))))
    if "grid" in parts or ("frame" in parts and extra and not foreign):
        coupling = [e for e in emitted if not ca.isnum(e[1]) and {n for n in ca._consts(e[1]) if n in ca._SYMS} and {n for n in ca._consts(e[1]) if n in ca._SYMS} <= tn]
        G = grid_spec_formula(spec, meth, orc)
        Rf = rows_formula(coupling)
        base = "%s|sampling_method:SamplingMethod.add_coupling_constraints" % inst
        c.prove(base + ":ensures:coupling-rows-imply-declared-partition", z3.Implies(Rf, G),
                detail="%d coupling rows" % len(coupling))
        # nothing beyond the declaration: the rows follow from the declared partition together with
        # the declared min/max on every interval
        Gall = grid_spec_formula(spec, meth, orc, all_bounds=True)
        c.prove(base + ":frame:coupling-rows-implied-by-declared-partition", z3.Implies(Gall, Rf))
    if "grid" in parts:
        # the grid the method uses is the one the oracle derives from the handles
        cg = ca.MX(meth.control_grid)
        base = "%s|sampling_method:SamplingMethod.add_variables_V_control_finalize:ensures:control-grid" % inst
        nlp.prove_equal(base, ca.vec(cg), ca.vcat(orc.ts))
        for k in range(spec.N):
            ig = ca.MX(meth.integrator_grid[k])
            h = (orc.ts[k + 1] - orc.ts[k]) / spec.M
            exp = [orc.ts[k] + i * h if i else orc.ts[k] for i in range(spec.M + (1 if k == spec.N - 1 else 0))]
            if k == spec.N - 1:
                exp[-1] = orc.ts[k + 1]
            nlp.prove_equal("%s|sampling_method:SamplingMethod.transcribe:ensures:integrator-grid[%d]" % (inst, k), ca.vec(ig), ca.vcat(exp))
    if "objective" in parts:
        nlp.prove_equal("%s|sampling_method:SamplingMethod.add_objective:ensures:objective-is-sum-of-terms" % inst, opti._f, orc.J)
        if opti._n_minimize != 1:
            c.fail("%s|direct_method:OptiWrapper.transcribe_placeholders:ensures:minimize-once" % inst, "Opti.minimize called %d times" % opti._n_minimize)
    if "init" in parts:
        check_init(inst, spec, meth, opti)
    if "pvals" in parts:
        # C09: column k of a per-interval parameter is the value on interval k (include_last: column N at the final node);
        # matrix-valued parameters keep their element layout; a later set_value replaces that parameter only
        def pv(sym):
            s = ca.MX(sym)
            return ca.DM._raw(s.rows, s.cols, [opti._pval[x.decl().name()] for x in s.e])
        for kind, lst in (("", meth.P), ("control", meth.P_control), ("control+", meth.P_control_plus)):
            for i, P in enumerate(lst):
                if (kind, i) not in spec.pvals:
                    continue            # horizon parameters are checked through the rows that contain them
                val = ca.DM(spec.pvals[(kind, i)])
                base = "%s|sampling_method:SamplingMethod.set_parameter:ensures:value[%s%d]" % (inst, kind or "global", i)
                if kind == "":
                    nlp.prove_equal(base, pv(P), val)
                else:
                    ncol = ca.MX(P[0]).shape[1]
                    for k in range(len(P)):
                        nlp.prove_equal(base + "[column %d]" % k, pv(P[k]), val[:, k * ncol:(k + 1) * ncol])
    if "scaling" in parts:
        from .oracle import scaled_handles
        for label, h, sc in scaled_handles(spec, meth):
            h = ca.MX(h)
            name = "%s|%s.add_variables:ensures:physical-is-declared-scale-times-own-solver-variable[%s]" % (inst, MOD[spec.method], label)
            syms = []
            for e in h.e:
                names = [n for n in ca._consts(e) if n in ca._SYMS] if not ca.isnum(e) else []
                syms.append(names[0] if len(names) == 1 else None)
            if None in syms:
                c.fail(name, "entry %s is not a function of exactly one solver variable" % ca._short(h.e[syms.index(None)]))
                continue
            nlp.prove_equal(name, h, ca.MX(sc) * ca.MX._raw(h.rows, h.cols, [z3.Real(n) for n in syms]))
    if "ss-states" in parts and spec.method == "SS":
        for k in range(spec.N + 1):
            nlp.prove_equal("%s|single_shooting:SingleShooting.add_constraints:ensures:state-is-propagated[%d]" % (inst, k), meth.X[k], orc.X[k])
    return orc
