"""
C08: refined sampling and samplers interpolate the discrete solution consistently.

bounded tasks (real code on the casadi model, symbolic numbers, uninterpreted dynamics):
  * sample(e, grid='integrator', refine=r): entry (kM+l)*r+q has time t_{k,l}+q*h/r and value
    e(x := P_{k,l}(q*h/r), t := that time, interval-k controls/parameters);
    every r-th entry equals the unrefined integrator sample, last entry = final node.
  * the per-step polynomial P (coefficients the method stores): P(0) = step start state,
    P(h) = step end state, P'(0) = f(start) for rk / expl_euler; for collocation P passes through
    the helper states and P' at the collocation times is (Xc*C)/h (the defect rows of C02 equate
    that to f).
"""
import casadi as ca

from vc.core import ctx
from vc.runner import Task
from . import nlp
from .spec import Spec, E, Con
from .oracle import Oracle, getter
from .catalog import NONUNIFORM
from .backend import MODEL


def poly_at(coeff, tau):
    """sum_i coeff[:, i] * tau^i"""
    coeff = ca.MX(coeff)
    v = coeff[:, 0]
    p = 1
    for i in range(1, coeff.shape[1]):
        p = p * tau
        v = v + coeff[:, i] * p
    return v


def poly_der_at(coeff, tau):
    coeff = ca.MX(coeff)
    v = 0
    p = 1
    for i in range(1, coeff.shape[1]):
        v = v + coeff[:, i] * (i * p)
        p = p * tau
    return v


def refine_check(spec, exprs, refines, inst, poly=True):
    c = ctx()
    spec.build()
    ocp = spec.ocp
    built = [(ex, ex.on(spec.atom)) for ex in exprs]
    meth = spec.transcribe()
    orc = Oracle(spec, meth).expected()
    N, M = spec.N, spec.M
    ts = orc.ts
    nx = sum(spec.states)
    for k in range(N):
        # the statement is about grids with T > 0 (strictly increasing): interval lengths are non-zero
        nlp.assume_nonzero(ts[k + 1] - ts[k])
    # ---- the stored per-step polynomials ---------------------------------------------------
    if poly:
        for k in range(N):
            h = (ts[k + 1] - ts[k]) / M
            for l in range(M):
                co = meth.poly_coeff[k * M + l]
                x0 = orc.xk[k][l]
                x1 = orc.xk[k][l + 1]
                base = "%s|%s:ensures:step-polynomial[%d,%d]" % (inst, "sampling_method:SamplingMethod.intg_%s" % spec.intg if spec.method != "DC" else "direct_collocation:DirectCollocation.add_constraints", k, l)
                nlp.prove_equal(base + ":starts-at-step-start", poly_at(co, 0 * h), x0)
                if spec.method != "DC":
                    nlp.prove_equal(base + ":ends-at-step-end", poly_at(co, h), x1)
                    d = orc.integrator_env(k, l, orc.xk)
                    nlp.prove_equal(base + ":initial-slope-is-rhs", ca.MX(co)[:, 1], orc.rhs(d))
                    deg = ca.MX(co).shape[1] - 1
                    want = 4 if spec.intg == "rk" else 1
                    c.prove(base + ":degree", deg == want, detail="degree %d" % deg)
                else:
                    tau = [float(t) for t in meth.tau]
                    Xc = ca.MX(meth.Xc[k][l])
                    C = ca.DM(meth.C)
                    # Gauss-Legendre nodes are irrational: the table is exact only up to rounding (A-FLOAT)
                    eq = nlp.prove_close if spec.scheme == "legendre" else nlp.prove_equal
                    for j, tj in enumerate(tau):
                        eq(base + ":through-helper-state[%d]" % j, poly_at(co, h * tj), Xc[:, j + 1])
                        slope = 0
                        for r in range(len(tau) + 1):
                            slope = slope + Xc[:, r] * C[r, j]
                        eq(base + ":slope-at-collocation-time[%d]" % j, poly_der_at(co, h * tj), slope / h)
                    c.prove(base + ":degree", ca.MX(co).shape[1] - 1 == spec.degree)
    # ---- refined samples ----------------------------------------------------------------------
    for ex, e in built:
        t0_, plain = ocp.sample(e, grid="integrator")
        for r in refines:
            name = "%s|stage:Stage._grid_intg_fine:ensures:[%s,refine=%d]" % (inst, ex.name, r)
            try:
                time, res = ocp.sample(e, grid="integrator", refine=r)
            except Exception as err:
                c.fail(name + ":no-exception", "%s: %s" % (type(err).__name__, str(err)[:200]))
                continue
            time, res = ca.MX(time), ca.MX(res)
            npts = N * M * r + 1
            c.prove(name + ":one-time-per-value", time.numel() == npts and res.shape[1] == npts,
                    detail="time entries %d, value columns %d, expected %d" % (time.numel(), res.shape[1], npts))
            if time.numel() != npts or res.shape[1] != npts:
                continue
            exp_t, exp_v = [], []
            for k in range(N):
                h = (ts[k + 1] - ts[k]) / M
                for l in range(M):
                    co = meth.poly_coeff[k * M + l]
                    d0 = orc.integrator_env(k, l, orc.xk)
                    for q in range(r):
                        loc = h * q / r if q else 0 * h
                        d = dict(d0)
                        d["t"] = d0["t"] + loc if q else d0["t"]
                        d["x"] = poly_at(co, loc)
                        exp_t.append(d["t"])
                        exp_v.append(ex.on(lambda a, d=d: d[a]))
            exp_t.append(ts[N])
            # final entry: end value of the last step polynomial (= the final node state at every point
            # satisfying the dynamic constraints, which is what the property quantifies over)
            dN = dict(orc.node_env(N))
            h_last = (ts[N] - ts[N - 1]) / M
            dN["x"] = poly_at(meth.poly_coeff[N * M - 1], h_last)
            exp_v.append(ex.on(lambda a, d=dN: d[a]))
            nlp.prove_equal(name + ":time", ca.vec(time), ca.vcat(exp_t))
            nlp.prove_equal(name + ":values", res, ca.hcat(exp_v))
            # every r-th entry is the unrefined integrator sample (final entry: on the feasible manifold)
            idx = list(range(0, npts - 1, r))
            nlp.prove_equal(name + ":every-rth-entry-is-the-integrator-sample", res[:, idx], ca.MX(plain)[:, :len(idx)])
            if not MODEL:
                continue            # the substitution lemma below is an engine-side argument (z3 terms)
            # final entry: rewriting the final node state by the propagated end state of the last step (what the
            # last gap / continuity row equates it to) turns the integrator sample into the refined entry
            import z3
            xN = ca.MX(orc.X[N])
            xp = poly_at(meth.poly_coeff[N * M - 1], h_last)     # = end state of the last step (obligation ends-at-step-end)
            pairs = [(ca.tz(a), ca.tz(b)) for a, b in zip(xN.e, xp.e) if not ca.isnum(a)]
            fin = ca.MX(plain)[:, len(idx)]
            fin = ca.MX._raw(fin.rows, fin.cols, [z3.substitute(ca.tz(v), *pairs) if not ca.isnum(v) else v for v in fin.e])
            if spec.method != "SS":     # single shooting has no gap rows: its final state IS the propagated state (ends-at-step-end)
                nlp.prove_equal(name + ":final-entry-is-the-final-node-when-dynamically-feasible", res[:, npts - 1], fin)


def alg_poly_check(spec, refines, inst):
    """DirectCollocation with algebraic variables: the stored per-step polynomial of z (degree d-1) passes through the
    algebraic helper values at that step's OWN collocation times, and sample(z, grid='integrator', refine=r) evaluates it
    (added after seeded change C08-8 / C07h: power scaling of the z polynomial taken from the first interval's step)"""
    c = ctx()
    spec.build()
    ocp = spec.ocp
    meth = spec.transcribe()
    orc = Oracle(spec, meth).expected()
    N, M = spec.N, spec.M
    ts = orc.ts
    for k in range(N):
        nlp.assume_nonzero(ts[k + 1] - ts[k])
    tau = [float(t) for t in meth.tau]
    # Radau nodes of degree >= 3 (and all Gauss-Legendre nodes) are irrational: the table is exact only up to rounding (A-FLOAT)
    eq = nlp.prove_close if (spec.degree >= 3 or spec.scheme == "legendre") else nlp.prove_equal
    c.prove(inst + "|direct_collocation:DirectCollocation.add_variables:ensures:one-z-polynomial-per-step", len(meth.poly_coeff_z) == N * M,
            detail="%d polynomials, %d steps" % (len(meth.poly_coeff_z), N * M))
    for k in range(N):
        h = (ts[k + 1] - ts[k]) / M
        for l in range(M):
            co = meth.poly_coeff_z[k * M + l]
            Zc = ca.MX(meth.Zc[k][l])
            base = "%s|direct_collocation:DirectCollocation.add_variables:ensures:z-step-polynomial[%d,%d]" % (inst, k, l)
            c.prove(base + ":degree", ca.MX(co).shape[1] == spec.degree, detail="%d coefficients" % ca.MX(co).shape[1])
            for j, tj in enumerate(tau):
                eq(base + ":through-algebraic-helper[%d]" % j, poly_at(co, h * tj), Zc[:, j])
    z = spec.atom("z")
    for r in refines:
        name = "%s|stage:Stage._grid_intg_fine:ensures:[z,refine=%d]" % (inst, r)
        time, res = ocp.sample(z, grid="integrator", refine=r)
        time, res = ca.MX(time), ca.MX(res)
        npts = N * M * r + 1
        c.prove(name + ":one-time-per-value", time.numel() == npts and res.shape[1] == npts,
                detail="time entries %d, value columns %d, expected %d" % (time.numel(), res.shape[1], npts))
        if time.numel() != npts or res.shape[1] != npts:
            continue
        exp_v = []
        for k in range(N):
            h = (ts[k + 1] - ts[k]) / M
            for l in range(M):
                co = meth.poly_coeff_z[k * M + l]
                for q in range(r):
                    exp_v.append(poly_at(co, h * q / r if q else 0 * h))
        nlp.prove_equal(name + ":values-within-steps", res[:, :npts - 1], ca.hcat(exp_v))


def sampler_check(spec, exprs, inst):
    """the function returned by sampler, at the gist and a time t inside integrator step (k,l), is the expression
    on the step polynomial at local time t - t_{k,l} with interval-k control"""
    import z3
    c = ctx()
    spec.build()
    ocp = spec.ocp
    built = [(ex, ex.on(spec.atom)) for ex in exprs]
    meth = spec.transcribe()
    orc = Oracle(spec, meth).expected()
    N, M = spec.N, spec.M
    ts = orc.ts
    for k in range(N):
        nlp.assume_positive(ts[k + 1] - ts[k])        # T > 0: strictly increasing grid
    f = ocp.sampler("smp", [e for _, e in built])
    gist = ocp.gist
    from vc.core import isolated
    for k in range(N):
        h = (ts[k + 1] - ts[k]) / M
        for l in range(M):
            def one(k=k, l=l, h=h):
                t_lo = ts[k] + l * h if l else ts[k]
                t_hi = ts[k] + (l + 1) * h if l + 1 < M else ts[k + 1]
                if MODEL:
                    from vc.core import fresh_real
                    cc = ctx()
                    tq = fresh_real("tq")                      # ANY query time inside the step
                    cc.assume(tq >= ca.tz(t_lo.e[0]))
                    cc.assume(tq < ca.tz(t_hi.e[0]))
                    T = ca.MX._raw(1, 1, [tq])
                else:
                    T = t_lo + 0.37 * (t_hi - t_lo)            # native replay: one query time inside the step
                res = f(gist, T)
                res = [res] if not isinstance(res, (tuple, list)) else list(res)
                d0 = orc.integrator_env(k, l, orc.xk)
                d = dict(d0)
                d["t"] = T
                d["x"] = poly_at(meth.poly_coeff[k * M + l], T - t_lo)
                for (ex, _), r in zip(built, res):
                    nlp.prove_equal("%s|stage:Stage.sampler:ensures:[%s,k=%d,l=%d]" % (inst, ex.name, k, l), r, ex.on(lambda a, d=d: d[a]))
            isolated(one, inst)


def tasks(tier, prop="C08"):
    out = []
    exprs = lambda: [E("s1", 1, ("x", "u", "t", "p", "pc", "pcp", "v", "vc", "vcp")), E("s2", 2, ("x", "t"))]
    P = {"": [1], "control": [1], "control+": [1]}
    grids_all = [("uniform", dict(kind="uniform"), ("unknown",))] + list(NONUNIFORM)
    for meth, intg in (("MS", "rk"), ("MS", "expl_euler"), ("SS", "rk"), ("DC", None)):
        for (N, M) in ((2, 1), (2, 2), (3, 3)) if tier == "thorough" else ((2, 2),):
            for gname, g, Tk in grids_all:
                if tier != "thorough" and gname not in ("uniform", "geometric-Tfree"):
                    continue
                label = "%s/%s%s-N%d-M%d-%s-refine" % (prop, meth, "-" + intg if intg else "", N, M, gname)
                def fn(meth=meth, intg=intg, N=N, M=M, g=g, Tk=Tk, label=label):
                    spec = Spec(method=meth, intg=intg or "rk", N=N, M=M, degree=2, grid=dict(g), T=Tk, t0=("unknown",), params=P, variables=P,
                                ode=E("f", None, ("x", "u", "t", "p", "pc")), label=label)
                    refine_check(spec, exprs(), (2, 3), label, poly=(prop == "C08"))
                out.append(Task(label, fn, kind="bounded", bound=dict(method=meth, intg=intg, N=N, M=M, grid=g, T=list(Tk), refine=[2, 3]),
                                replay=dict(harness="task_probe", module="contracts.c08", task=label, tier=tier, tasks_kw=dict(prop=prop))))
    # generated specifications (contracts/randspec.py): refined samples of an expression of every declared symbol
    from . import randspec
    for i in range(120 if tier == "thorough" else 40):
        kw = randspec.make(i)
        if kw.get("discrete") or (kw["method"] != "DC" and kw.get("intg") not in ("rk", "expl_euler")):
            continue
        label = "%s/R%03d-%s-refine" % (prop, i, kw["method"])
        def fn(i=i, label=label):
            kw = randspec.make(i)
            spec = Spec(**kw)
            spec.label = label
            have = [a for a in ("x", "u", "t", "p", "pc", "pcp", "v", "vc", "vcp", "T", "t0") if a != "u" or kw["controls"]] + (["w"] if kw.get("hoc") else [])
            refine_check(spec, [E("sr", 2, tuple(have))], (2,), label, poly=False)
        out.append(Task(label, fn, kind="bounded", bound=dict(generated=i, refine=[2]),
                        replay=dict(harness="task_probe", module="contracts.c08", task=label, tier=tier, tasks_kw=dict(prop=prop))))
    if prop == "C08":
        for i in range(90 if tier == "thorough" else 30):
            kw = randspec.make(i)
            if kw.get("discrete") or kw["grid"].get("kind") == "free" or kw["grid"].get("localize_T") or kw["grid"].get("localize_t0"):
                continue
            label = "C08/R%03d-%s-sampler" % (i, kw["method"])
            def fn(i=i, label=label):
                kw = randspec.make(i)
                spec = Spec(**kw)
                spec.label = label
                have = [a for a in ("x", "u", "t") if a != "u" or kw["controls"]] + (["w"] if kw.get("hoc") else [])      # rockit's sampler takes expressions of x, u, t only
                sampler_check(spec, [E("sq", 2, tuple(have))], label)
            out.append(Task(label, fn, kind="bounded", bound=dict(generated=i, query_time="symbolic within each integrator step"),
                            replay=dict(harness="task_probe", module="contracts.c08", task=label, tier=tier)))
    if prop in ("C08", "C07"):
        # algebraic variables under collocation: the z polynomial of every step (uniform and non-uniform grids, M > 1, degree 2..3)
        for degree in (2, 3):
            for gname, g, Tk in grids_all:
                if tier != "thorough" and gname not in ("uniform", "geometric"):
                    continue
                if degree >= 3 and gname in ("localizeT", "freegrid"):
                    continue        # step lengths are decision variables there: the tolerance comparison needs them numeric
                label = "%s/DC-dae-d%d-N3-M2-%s-algebraic-polynomial" % (prop, degree, gname)
                def fn(degree=degree, g=g, Tk=Tk, label=label):
                    # degree 3: irrational nodes, numeric horizon so that the step length cancels in normal form (as for Gauss-Legendre below)
                    spec = Spec(method="DC", N=3, M=2, degree=degree, grid=dict(g), T=Tk if degree < 3 else ("fixed", 1.5),
                                t0=("unknown",) if degree < 3 else ("fixed", 0.25), algebraics=[1, 1],
                                ode=E("f", None, ("x", "u", "z", "t")), alg=E("g", None, ("x", "z", "u")), label=label)
                    alg_poly_check(spec, (2, 3), label)
                out.append(Task(label, fn, kind="bounded", bound=dict(method="DC", degree=degree, N=3, M=2, grid=g, T=list(Tk), algebraics=[1, 1], refine=[2, 3]),
                                replay=dict(harness="task_probe", module="contracts.c08", task=label, tier=tier, tasks_kw=dict(prop=prop))))
    if prop == "C08":
        # Gauss-Legendre collocation: numeric horizon (so that the step length cancels in normal form) and tolerance
        for degree in (2, 3) if tier != "thorough" else (1, 2, 3, 4):
            label = "C08/DC-legendre-d%d-N2-M2-refine" % degree
            def fn(degree=degree, label=label):
                spec = Spec(method="DC", N=2, M=2, degree=degree, scheme="legendre", grid=dict(kind="uniform"), T=("fixed", 1.5), t0=("fixed", 0.25),
                            params=P, variables=P, ode=E("f", None, ("x", "u", "t", "p", "pc")), label=label)
                refine_check(spec, exprs(), (2,), label)
            out.append(Task(label, fn, kind="bounded", bound=dict(method="DC", scheme="legendre", degree=degree, N=2, M=2, T=1.5, t0=0.25, refine=[2], tolerance=1e-9),
                            replay=dict(harness="task_probe", module="contracts.c08", task=label, tier=tier)))
        for meth, intg in (("MS", "rk"), ("DC", None), ("SS", "expl_euler")):
            for gname, g, Tk in grids_all:
                if tier != "thorough" and gname not in ("uniform", "geometric", "geometric-Tfree"):
                    continue
                label = "C08/%s%s-N3-M2-%s-sampler" % (meth, "-" + intg if intg else "", gname)
                def fn(meth=meth, intg=intg, g=g, Tk=Tk, label=label):
                    spec = Spec(method=meth, intg=intg or "rk", N=3, M=2, degree=2, grid=dict(g), T=Tk, t0=("unknown",),
                                ode=E("f", None, ("x", "u", "t")), label=label)
                    sampler_check(spec, [E("q1", 1, ("x", "u", "t")), E("q2", 2, ("x",))], label)
                out.append(Task(label, fn, kind="bounded", bound=dict(method=meth, intg=intg, N=3, M=2, grid=g, T=list(Tk), query_time="symbolic within each integrator step"),
                                replay=dict(harness="task_probe", module="contracts.c08", task=label, tier=tier)))
    return out
