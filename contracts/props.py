"""
Property -> tasks.  Each property module contributes
  * proof tasks      (unbounded: symbolic N / k / offsets / values; vc.* engine)
  * bounded tasks    (same engine, concrete structure; contracts.bounded)
  * enumerated tasks (finite domains with a float tolerance)
  * structural tasks (AST-level obligations: census, invalidation discipline, ...)
"""
from vc.runner import Task
from . import catalog

BOUNDED_PARTS = {
    "C01": ("dynamics", "ss-states"),
    "C02": ("dynamics",),
    "C04": ("placement", "frame"),
    "C05": ("objective",),
    "C06": ("grid", "frame"),
    "C09": ("dynamics", "placement", "frame", "objective", "pvals"),
    "C10": ("init",),
    "C11": ("dynamics", "placement", "frame", "grid", "objective", "freetime", "init"),
    "C14": ("dynamics", "placement", "frame", "objective", "scaling", "init"),
    "C13": ("dynamics", "placement", "frame", "objective", "pvals", "init"),
}


def bounded_tasks(prop, tier):
    from . import bounded
    tasks = []
    parts = BOUNDED_PARTS[prop]
    for label, fac in catalog.FAMILIES[prop](tier):
        def fn(fac=fac, label=label):
            spec = fac()
            spec.label = label
            bounded.check_nlp(spec, parts=parts, inst="%s/%s" % (prop, label))
            extra = EXTRA.get(prop)
            if extra:
                extra(spec, "%s/%s" % (prop, label))
        s0 = fac()
        tasks.append(Task("%s/%s" % (prop, label), fn, kind="bounded",
                          functions=[], replay=dict(harness="nlp_diff", prop=prop, label=label, parts=list(parts)),
                          bound=s0.describe()))
    return tasks


EXTRA = {}


def c05_extra(tier):
    from . import c03
    return [Task("C05/collocation-quadrature-weights", c03.native_collocation, kind="enumerated", replay=dict(harness="colloc_probe"), bound=dict(degree="1..7", schemes=["radau", "legendre"], tolerance=1e-9))]


def tasks_for(prop, tier):
    out = []
    if prop == "C05":
        out += c05_extra(tier)
    if prop in ("C04", "C09"):
        # the same clauses for stages created from a template (two clones of generated specifications)
        from . import c12
        sel = (lambda kw: bool(kw["constraints"])) if prop == "C04" else (lambda kw: bool(kw["params"]) or kw["T"][0] == "param" or kw["t0"][0] == "param")
        out += c12.generated_clone_tasks(tier, prop, select=sel)
    if prop in ("C10", "C14"):
        # guesses and scales of stages created from a template: every clone starts from the template's guesses (incl. T / t0);
        # what is declared on one clone after cloning (guess, derivative scale, ...) stays with that clone
        from . import c12
        sel = (lambda kw: True) if prop == "C10" else (lambda kw: bool(kw.get("scales")))
        out += c12.generated_clone_tasks(tier, prop, select=sel)
        out += c12.generated_divergent_tasks(tier, prop, select=sel)
    if prop in ("C04", "C05", "C12"):
        from . import c13
        sel = {"C04": lambda h: "subject_to" in h or "clear_constraints" in h, "C05": lambda h: "add_objective" in h,
               "C12": lambda h: h.startswith("substage")}[prop]
        out += c13.history_tasks_for(prop, sel, tier)
    if prop in ("C01", "C02"):
        from . import c17
        out += c17.der_independence_tasks(tier, prop)
    if prop == "C11":
        # der() chains of b-spline signals carry 1/T per derivative: the horizon is a symbol (free T)
        from . import c17
        out += c17.sequence_tasks(tier, "C11")
    if prop == "C02":
        from . import c03
        out.append(Task("C02/collocation-polynomial-tables", lambda: c03.native_collocation(only=("nodes-are", "C-is", "D-is", "tables-independent")), kind="enumerated", replay=dict(harness="colloc_probe"),
                        bound=dict(degree="1..7", schemes=["radau", "legendre"], tolerance=1e-9, construction_orders=2)))
    if prop in BOUNDED_PARTS:
        out += bounded_tasks(prop, tier)
    try:
        mod = __import__("contracts.%s" % prop.lower(), fromlist=["tasks"])
    except ImportError:
        mod = None
    if mod is not None:
        out += mod.tasks(tier)
    if tier == "thorough" or prop == "C01":
        from vc import validate
        seeds = (0, 1, 2, 3) if tier == "thorough" else (0, 1)
        out.append(Task("model/dependency-contracts", lambda: validate.dependency_contracts(seeds), kind="enumerated",
                        note="model/casadi vs the real CasADi on sampled inputs; a disagreement is a checker defect", bound=dict(operations=66, seeds=list(seeds))))
    return out
