"""
C14 / representation invariant (unbounded part): MultipleShooting.add_variables for a SYMBOLIC number N of
intervals.  This is the contract that ESTABLISHES what the add_constraints contracts assume about the method
object:
   X has N+1 members, U has N, every member is (scale of ITS OWN symbol) * (a fresh decision variable),
   per-interval variables have N members, include_last ones N+1, Q = [0, None, ...], the local-time lists are
   empty for a non-localized grid and the control grid is t0 + k T/N.
Scaling (C14): the physical quantity is scale * solver variable with the scale given at the symbol's declaration.
"""
import z3
import casadi as ca

from vc.core import ctx, SymInt, fresh_int, unwrap_int, isolated
from vc.symlist import SymList, vc_len
from vc import loops, contract
from vc.runner import Task
from .backend import ufun, unknown
from . import nlp


def ms_add_variables():
    from rockit import Ocp, MultipleShooting
    from rockit.direct_method import OptiWrapper
    import rockit.sampling_method as sm, rockit.multiple_shooting as msm, rockit.stage as st
    loops.install_builtins(sm, msm, st)
    contract.setup_loops()
    c = ctx()
    N = fresh_int("N")
    c.assume((N >= 1).z)
    T, t0 = unknown("horizon_T", positive=True), unknown("horizon_t0")
    ocp = Ocp(T=T, t0=t0)
    sx1, sx2 = unknown("scale_x1", 2, 1, positive=True), unknown("scale_x2", 1, 1, positive=True)
    su, svc, svcp, sv = unknown("scale_u", 1, 1, positive=True), unknown("scale_vc", 1, 1, positive=True), unknown("scale_vcp", 1, 1, positive=True), unknown("scale_v", 1, 1, positive=True)
    x1 = ocp.state(2, scale=sx1); x2 = ocp.state(scale=sx2)
    u = ocp.control(scale=su)
    v = ocp.variable(scale=sv)
    vc = ocp.variable(grid="control", scale=svc)
    vcp = ocp.variable(grid="control", include_last=True, scale=svcp)
    meth = MultipleShooting(N=N, M=1)
    ocp._method = meth
    opti = OptiWrapper(ocp)
    meth.opti = opti
    meth.xi = None
    contract.use_opti(opti)
    QUAL = "multiple_shooting:MultipleShooting.add_variables"
    TAG = QUAL + ":loop0"
    sx = ca.vertcat(sx1, sx2)
    # creation sites inside the loop body, in program order: per-interval variable, include_last variable, control, state
    fVc = opti.loop_family(TAG, 0, 1)
    fVcp = opti.loop_family(TAG, 1, 1)
    fU = opti.loop_family(TAG, 2, 1)
    fX1 = opti.loop_family(TAG, 3, 2)
    fX2 = opti.loop_family(TAG, 4, 1)

    def Xj(j, env):
        j = unwrap_int(j)
        if isinstance(j, int) and j == 0:
            return env["X0"]
        if j == 0:
            return env["X0"]
        jm = unwrap_int(j - 1)
        return ca.vertcat(ca.MX(sx1) * fX1(jm), ca.MX(sx2) * fX2(jm))

    holder = {}

    def state(k, env):
        if "X0" not in holder:
            holder["X0"] = env["self"].X[0]
        e = holder
        st = {"self.X": SymList(unwrap_int(k + 1), lambda j: Xj(j, e), "X"),
              "self.U": SymList(k, lambda j: ca.MX(su) * fU(j), "U"),
              "self.Q": SymList(unwrap_int(k + 1), lambda j: ca.DM.zeros(0) if j == 0 else None, "Q"),
              "self.t0_local": SymList(unwrap_int(N + 1), lambda j: None, "t0_local"),
              "self.T_local": SymList(N, lambda j: None, "T_local")}
        kk = unwrap_int(k)
        first = (kk == 0) if isinstance(kk, int) else bool(kk == 0)
        if first:
            st["self.V_control"], st["self.V_control_plus"] = [], []
        else:
            st["self.V_control"] = [SymList(k, lambda j: ca.MX(svc) * fVc(j), "V_control")]
            st["self.V_control_plus"] = [SymList(k, lambda j: ca.MX(svcp) * fVcp(j), "V_control_plus")]
        return st

    loops.SPECS.clear()
    loops.SPECS[(QUAL, 0)] = loops.LoopSpec(state=state)
    with loops.patched(MultipleShooting, "add_variables", QUAL):
        meth.add_variables(ocp, opti)
    # ---- the representation invariant -------------------------------------------------------------------
    c.prove(QUAL + ":ensures:N+1-node-states", vc_len(meth.X) == N + 1)
    c.prove(QUAL + ":ensures:N-controls", vc_len(meth.U) == N)
    c.prove(QUAL + ":ensures:N+1-quadrature-slots", vc_len(meth.Q) == N + 1)
    c.prove(QUAL + ":ensures:per-interval-variable-has-N-members", len(meth.V_control) == 1 and vc_len(meth.V_control[0]) == N)
    c.prove(QUAL + ":ensures:include_last-variable-has-N+1-members", len(meth.V_control_plus) == 1 and vc_len(meth.V_control_plus[0]) == N + 1)
    j = fresh_int("j")
    c.assume((j >= 1).z)
    c.assume((j <= N).z)
    def scaled():
        jm = unwrap_int(j - 1)
        nlp.prove_equal(QUAL + ":ensures:node-state-is-own-scale-times-fresh-variable", meth.X[j], ca.vertcat(ca.MX(sx1) * fX1(jm), ca.MX(sx2) * fX2(jm)))
        nlp.prove_equal(QUAL + ":ensures:control-is-own-scale-times-fresh-variable", meth.U[jm], ca.MX(su) * fU(jm))
        nlp.prove_equal(QUAL + ":ensures:per-interval-variable-is-own-scale-times-fresh-variable", meth.V_control[0][jm], ca.MX(svc) * fVc(jm))
        nlp.prove_equal(QUAL + ":ensures:include_last-variable-is-own-scale-times-fresh-variable", meth.V_control_plus[0][jm], ca.MX(svcp) * fVcp(jm))
    isolated(scaled, QUAL)

    def own_variable(name, got, scale):
        """got == scale * (one decision variable created outside the loop, not used by any other handle)"""
        got = ca.MX(got)
        names = set()
        for e in got.e:
            names |= set(ca._consts(ca.tz(e))) if not ca.isnum(e) else set()
        mine = [v for v in opti._vars if set(str(x) for x in v.e) & names]
        if len(mine) != 1:
            c.fail(name, "depends on %d decision variables created outside the loop (expected exactly one)" % len(mine))
            return
        nlp.prove_equal(name, got, ca.MX(scale) * mine[0])
    # the extra final-node member of the include_last variable (created by add_variables_V_control_finalize)
    own_variable("sampling_method:SamplingMethod.add_variables_V_control_finalize:ensures:final-node-member-is-own-scale-times-fresh-variable",
                 meth.V_control_plus[0][N], svcp)
    own_variable("sampling_method:SamplingMethod.add_variables_V:ensures:global-variable-is-own-scale-times-fresh-variable", meth.V, sv)
    x0 = ca.MX(meth.X[0])
    c.prove(QUAL + ":ensures:initial-state-is-scaled-fresh-variable", all((not ca.isnum(e)) for e in x0.e) and x0.shape == (3, 1))
    # control grid of the default (uniform, non-localized) grid
    from vc.core import _zr
    k = fresh_int("k")
    c.assume((k >= 0).z)
    c.assume((k <= N).z)
    nlp.prove_equal("sampling_method:SamplingMethod.add_variables_V_control_finalize:ensures:control-grid-node-k", meth.control_grid[k],
                    ca.MX(t0) + ca.MX._raw(1, 1, [_zr(k) / _zr(N)]) * ca.MX(T))
    nlp.prove_equal("sampling_method:SamplingMethod.add_variables_V:ensures:horizon", ca.vertcat(meth.T, meth.t0), ca.vertcat(ca.MX(T), ca.MX(t0)))


def dc_add_variables(M=2, degree=2):
    """DirectCollocation.add_variables for a SYMBOLIC number N of control intervals (M, degree concrete): establishes
    what the DirectCollocation.add_constraints contract (C02, contracts/unbounded.py:PreDC) assumes about the method
    object -- node states, controls, per-step start states and collocation states are each the declared scale times
    their OWN fresh solver variable (one family of variables per creation site of the loop body), list sizes, and the
    bookkeeping lists used by set_initial."""
    from rockit import Ocp, DirectCollocation
    from rockit.direct_method import OptiWrapper
    import rockit.sampling_method as sm, rockit.direct_collocation as dcm, rockit.stage as st
    loops.install_builtins(sm, dcm, st)
    contract.setup_loops()
    c = ctx()
    N = fresh_int("N")
    c.assume((N >= 1).z)
    T, t0 = unknown("horizon_T", positive=True), unknown("horizon_t0")
    ocp = Ocp(T=T, t0=t0)
    nx = 2
    sx, su = unknown("scale_x", nx, 1, positive=True), unknown("scale_u", 1, 1, positive=True)
    svc, svcp = unknown("scale_vc", 1, 1, positive=True), unknown("scale_vcp", 1, 1, positive=True)
    x_ = ocp.state(nx, scale=sx)
    u_ = ocp.control(scale=su)
    vc = ocp.variable(grid="control", scale=svc)
    vcp = ocp.variable(grid="control", include_last=True, scale=svcp)
    meth = DirectCollocation(N=N, M=M, degree=degree)
    ocp._method = meth
    opti = OptiWrapper(ocp)
    meth.opti = opti
    meth.xi = None
    contract.use_opti(opti)
    QUAL = "direct_collocation:DirectCollocation.add_variables"
    TAG = QUAL + ":loop0"
    sxm = ca.MX(sx)
    sxd = ca.repmat(sxm, 1, degree)
    # creation sites of one iteration, in program order
    site = 0
    fU = opti.loop_family(TAG, site, 1); site += 1
    fXc, fXs = [], [None]
    for i in range(M):
        fXc.append(opti.loop_family(TAG, site, nx * degree)); site += 1
        if i > 0:
            fXs.append(opti.loop_family(TAG, site, nx)); site += 1
    fXn = opti.loop_family(TAG, site, nx); site += 1
    fVc = opti.loop_family(TAG, site, 1); site += 1
    fVcp = opti.loop_family(TAG, site, 1); site += 1
    holder = {}

    def Xj(j):
        j = unwrap_int(j)
        if (isinstance(j, int) and j == 0) or (not isinstance(j, int) and bool(j == 0)):
            return holder["X0"]
        return sxm * fXn(unwrap_int(j - 1))

    def xc(j, i):
        return sxd * ca.reshape(fXc[i](j), nx, degree)

    def x0(j, i):
        return Xj(j) if i == 0 else sxm * fXs[i](j)

    def split(idx):
        idx = unwrap_int(idx)
        j, i = unwrap_int(idx // M), unwrap_int(idx % M)
        for ii in range(M):
            if i == ii:
                return j, ii
        raise AssertionError

    Z0 = lambda cols: ca.MX(0, cols)

    def state(k, env):
        if "X0" not in holder:
            holder["X0"] = env["self"].X[0]
        kM = unwrap_int(k * M)
        st = {
            "x": Xj(k), "z": ca.MX(0, 1),
            "self.X": SymList(unwrap_int(k + 1), Xj, "X"),
            "self.U": SymList(k, lambda j: ca.MX(su) * fU(j), "U"),
            "self.Q": SymList(unwrap_int(k + 1), lambda j: ca.DM.zeros(0) if j == 0 else None, "Q"),
            "self.Xc": SymList(k, lambda j: [ca.horzcat(x0(j, i), xc(j, i)) for i in range(M)], "Xc"),
            "self.xr": SymList(k, lambda j: [xc(j, i) for i in range(M)], "xr"),
            "self.Zc": SymList(k, lambda j: [Z0(degree) for i in range(M)], "Zc"),
            "self.zr": SymList(k, lambda j: [Z0(degree) for i in range(M)], "zr"),
            "self.X_intg": SymList(kM, lambda idx: x0(*split(idx)), "X_intg"),
            "self.Xc_pure": SymList(kM, lambda idx: xc(*split(idx)), "Xc_pure"),
            "self.Xc_vars": SymList(kM, lambda idx: (lambda j, i: xc(j, i) if i == 0 else ca.horzcat(x0(j, i), xc(j, i)))(*split(idx)), "Xc_vars"),
            "self.Xc_vars0": SymList(kM, lambda idx: (lambda j, i: ca.repmat(Xj(j), 1, degree if i == 0 else degree + 1))(*split(idx)), "Xc_vars0"),
            "self.Zc_vars_rest": SymList(kM, lambda idx: (lambda j, i: Z0(degree - 1) if i == 0 else Z0(degree))(*split(idx)), "Zc_vars_rest"),
            "self.Zc0": SymList(kM, lambda idx: (lambda j, i: Z0(degree - 1) if i == 0 else Z0(degree))(*split(idx)), "Zc0"),
            "self.Zc_vars_base": SymList(unwrap_int(k + 1), lambda j: ca.MX(0, 1), "Zc_vars_base"),
            "self.t0_local": SymList(unwrap_int(N + 1), lambda j: None, "t0_local"),
            "self.T_local": SymList(N, lambda j: None, "T_local"),
        }
        kk = unwrap_int(k)
        first = (kk == 0) if isinstance(kk, int) else bool(kk == 0)
        if first:
            st["self.V_control"], st["self.V_control_plus"] = [], []
        else:
            st["self.V_control"] = [SymList(k, lambda j: ca.MX(svc) * fVc(j), "V_control")]
            st["self.V_control_plus"] = [SymList(k, lambda j: ca.MX(svcp) * fVcp(j), "V_control_plus")]
        return st

    loops.SPECS.clear()
    loops.SPECS[(QUAL, 0)] = loops.LoopSpec(state=state)
    with loops.patched(DirectCollocation, "add_variables", QUAL):
        meth.add_variables(ocp, opti)
    c.prove(QUAL + ":ensures:N+1-node-states", vc_len(meth.X) == N + 1)
    c.prove(QUAL + ":ensures:N-controls", vc_len(meth.U) == N)
    c.prove(QUAL + ":ensures:N-intervals-of-helper-states", vc_len(meth.Xc) == N)
    c.prove(QUAL + ":ensures:N-intervals-of-algebraic-helpers", vc_len(meth.Zc) == N)
    c.prove(QUAL + ":ensures:include_last-variable-has-N+1-members", len(meth.V_control_plus) == 1 and vc_len(meth.V_control_plus[0]) == N + 1)
    c.prove(QUAL + ":ensures:per-interval-variable-has-N-members", len(meth.V_control) == 1 and vc_len(meth.V_control[0]) == N)
    j = fresh_int("j")
    c.assume((j >= 0).z)
    c.assume((j < N).z)

    def post():
        nlp.prove_equal(QUAL + ":ensures:node-state-is-own-scale-times-fresh-variable", meth.X[unwrap_int(j + 1)], sxm * fXn(j))
        nlp.prove_equal(QUAL + ":ensures:control-is-own-scale-times-fresh-variable", meth.U[j], ca.MX(su) * fU(j))
        Xc = meth.Xc[j]
        c.prove(QUAL + ":ensures:M-steps-per-interval", len(Xc) == M)
        for i in range(M):
            nlp.prove_equal(QUAL + ":ensures:step-%d-helper-states-are-own-scale-times-fresh-variables" % i, Xc[i][:, 1:], xc(j, i))
            nlp.prove_equal(QUAL + ":ensures:step-%d-start-state-%s" % (i, "is-the-node-state" if i == 0 else "is-own-scale-times-fresh-variable"), Xc[i][:, 0], x0(j, i))
        nlp.prove_equal(QUAL + ":ensures:per-interval-variable-is-own-scale-times-fresh-variable", meth.V_control[0][j], ca.MX(svc) * fVc(j))
        nlp.prove_equal(QUAL + ":ensures:include_last-variable-is-own-scale-times-fresh-variable", meth.V_control_plus[0][j], ca.MX(svcp) * fVcp(j))
    isolated(post, QUAL)
    x0m = ca.MX(meth.X[0])
    c.prove(QUAL + ":ensures:initial-state-is-scaled-fresh-variable", all((not ca.isnum(e)) for e in x0m.e) and x0m.shape == (nx, 1))


def ss_add_variables():
    """SingleShooting.add_variables for a SYMBOLIC N: only the initial state is a decision variable (own scale per state
    symbol), later node states are placeholders filled by add_constraints; controls and per-interval variables as in
    the other methods."""
    from rockit import Ocp, SingleShooting
    from rockit.direct_method import OptiWrapper
    import rockit.sampling_method as sm, rockit.single_shooting as ssm, rockit.stage as st
    loops.install_builtins(sm, ssm, st)
    contract.setup_loops()
    c = ctx()
    N = fresh_int("N")
    c.assume((N >= 1).z)
    T, t0 = unknown("horizon_T", positive=True), unknown("horizon_t0")
    ocp = Ocp(T=T, t0=t0)
    sx1, sx2 = unknown("scale_x1", 2, 1, positive=True), unknown("scale_x2", 1, 1, positive=True)
    su1, su2 = unknown("scale_u1", 1, 1, positive=True), unknown("scale_u2", 2, 1, positive=True)
    svc, svcp = unknown("scale_vc", 1, 1, positive=True), unknown("scale_vcp", 1, 1, positive=True)
    x1 = ocp.state(2, scale=sx1); x2 = ocp.state(scale=sx2)
    u1 = ocp.control(scale=su1); u2 = ocp.control(2, scale=su2)
    vc = ocp.variable(grid="control", scale=svc)
    vcp = ocp.variable(grid="control", include_last=True, scale=svcp)
    meth = SingleShooting(N=N, M=1)
    ocp._method = meth
    opti = OptiWrapper(ocp)
    meth.opti = opti
    meth.xi = None
    contract.use_opti(opti)
    QUAL = "single_shooting:SingleShooting.add_variables"
    TAG = QUAL + ":loop0"
    fU1 = opti.loop_family(TAG, 0, 1)
    fU2 = opti.loop_family(TAG, 1, 2)
    fVc = opti.loop_family(TAG, 2, 1)
    fVcp = opti.loop_family(TAG, 3, 1)
    Uj = lambda j: ca.vertcat(ca.MX(su1) * fU1(j), ca.MX(su2) * fU2(j))
    holder = {}

    def state(k, env):
        if "X0" not in holder:
            holder["X0"] = env["self"].X[0]
        st = {"self.X": SymList(unwrap_int(k + 1), lambda j: holder["X0"] if j == 0 else None, "X"),
              "self.U": SymList(k, Uj, "U"),
              "self.Q": SymList(unwrap_int(k + 1), lambda j: ca.DM.zeros(0) if j == 0 else None, "Q"),
              "self.t0_local": SymList(unwrap_int(N + 1), lambda j: None, "t0_local"),
              "self.T_local": SymList(N, lambda j: None, "T_local")}
        kk = unwrap_int(k)
        first = (kk == 0) if isinstance(kk, int) else bool(kk == 0)
        if first:
            st["self.V_control"], st["self.V_control_plus"] = [], []
        else:
            st["self.V_control"] = [SymList(k, lambda j: ca.MX(svc) * fVc(j), "V_control")]
            st["self.V_control_plus"] = [SymList(k, lambda j: ca.MX(svcp) * fVcp(j), "V_control_plus")]
        return st

    loops.SPECS.clear()
    loops.SPECS[(QUAL, 0)] = loops.LoopSpec(state=state)
    with loops.patched(SingleShooting, "add_variables", QUAL):
        meth.add_variables(ocp, opti)
    c.prove(QUAL + ":ensures:N+1-node-state-slots", vc_len(meth.X) == N + 1)
    c.prove(QUAL + ":ensures:N-controls", vc_len(meth.U) == N)
    c.prove(QUAL + ":ensures:include_last-variable-has-N+1-members", len(meth.V_control_plus) == 1 and vc_len(meth.V_control_plus[0]) == N + 1)
    j = fresh_int("j")
    c.assume((j >= 0).z)
    c.assume((j < N).z)

    def post():
        nlp.prove_equal(QUAL + ":ensures:control-is-own-scale-times-fresh-variable-per-control-symbol", meth.U[j], Uj(j))
        nlp.prove_equal(QUAL + ":ensures:per-interval-variable-is-own-scale-times-fresh-variable", meth.V_control[0][j], ca.MX(svc) * fVc(j))
        nlp.prove_equal(QUAL + ":ensures:include_last-variable-is-own-scale-times-fresh-variable", meth.V_control_plus[0][j], ca.MX(svcp) * fVcp(j))
        later = meth.X[unwrap_int(j + 1)]
        (c.ok if later is None else lambda n_, **k: c.fail(n_, "node state %s is already defined" % (later,)))(QUAL + ":ensures:later-node-states-are-left-to-add_constraints", backend="z3")
    isolated(post, QUAL)
    X0 = ca.MX(meth.X[0])
    names = []
    for e in X0.e:
        names.append([n for n in ca._consts(e) if n in ca._SYMS] if not ca.isnum(e) else [])
    ok = X0.shape == (3, 1) and all(len(n) == 1 for n in names) and len({n[0] for n in names}) == 3
    c.prove(QUAL + ":ensures:initial-state-entries-are-distinct-solver-variables", ok)
    if ok:
        nlp.prove_equal(QUAL + ":ensures:initial-state-is-own-scale-times-fresh-variable-per-state-symbol", X0,
                        ca.vertcat(sx1, sx2) * ca.MX._raw(3, 1, [z3.Real(n[0]) for n in names]))


def tasks(tier):
    return [Task("C14/proof/SS.add_variables[N symbolic]", ss_add_variables, kind="proof", replay=dict(harness="nlp_diff_any", families=[["C14", ["SS-"]]], parts=["scaling"], force="add_variables"),
                 functions=["single_shooting:SingleShooting.add_variables", "sampling_method:SamplingMethod.add_variables_V", "sampling_method:SamplingMethod.add_variables_V_control", "sampling_method:SamplingMethod.add_variables_V_control_finalize"],
                 bound=dict(N="symbolic (all N>=1)", dims="states 2+1, controls 1+2, per-interval and include_last variables", scales="symbolic positive"),
                 note="establishes the representation invariant assumed by the SingleShooting.add_constraints contract (C01)"),
            Task("C14/proof/DC.add_variables[N symbolic]", dc_add_variables, kind="proof", replay=dict(harness="nlp_diff_any", families=[["C14", ["DC-"]]], parts=["scaling"], force="add_variables"),
                 functions=["direct_collocation:DirectCollocation.add_variables", "sampling_method:SamplingMethod.add_variables_V", "sampling_method:SamplingMethod.add_variables_V_control", "sampling_method:SamplingMethod.add_variables_V_control_finalize", "direct_method:OptiWrapper.variable"],
                 bound=dict(N="symbolic (all N>=1)", M=2, degree=2, dims="state 2, one control, per-interval and include_last variables", scales="symbolic positive"),
                 note="establishes the representation invariant assumed by the DirectCollocation.add_constraints contract (C02)"),
            Task("C14/proof/MS.add_variables[N symbolic]", ms_add_variables, kind="proof", replay=dict(harness="nlp_diff_any", families=[["C14", ["MS-"]]], parts=["scaling"], force="add_variables"),
                 functions=["multiple_shooting:MultipleShooting.add_variables", "sampling_method:SamplingMethod.add_variables_V", "sampling_method:SamplingMethod.add_variables_V_control", "sampling_method:SamplingMethod.add_variables_V_control_finalize", "direct_method:OptiWrapper.variable"],
                 bound=dict(N="symbolic (all N>=1)", dims="states 2+1, one control, one variable of every grid kind", scales="symbolic positive"),
                 note="establishes the representation invariant assumed by the add_constraints contracts")]


def scaling_branch():
    """OptiWrapper.subject_to + transcribe_placeholders: every canonical constraint type with a SYMBOLIC positive
    scale is handed to Opti as the same relation with residual and finite bounds divided by the scale"""
    from rockit import Ocp
    from rockit.direct_method import OptiWrapper
    c = ctx()
    ocp = Ocp()
    opti = OptiWrapper(ocp)
    x = opti.variable(2)
    p = opti.parameter()
    s1 = unknown("scale_c", 1, 1, positive=True)
    s2 = unknown("scale_cv", 2, 1, positive=True)
    cst, lo, hi = unknown("bound", 1, 1), unknown("lo", 1, 1), unknown("hi", 1, 1)
    e = ufun("e", 1, [x, p])
    e2 = ufun("e2", 1, [x])
    ev = ufun("ev", 2, [x, p])
    cases = [("upper-bound", e <= ca.MX(cst), s1, [("le", (e - ca.MX(cst)) / s1)]),
             ("lower-bound", ca.MX(cst) <= e, s1, [("le", (ca.MX(cst) - e) / s1)]),
             ("parametric-bound", e <= p, s1, [("le", (e - p) / s1)]),
             ("two-sided", ca.MX(lo) <= (e <= ca.MX(hi)), s1, [("le", (e - ca.MX(hi)) / s1), ("le", (ca.MX(lo) - e) / s1)]),
             ("expression-vs-expression", e <= e2, s1, [("le", (e - e2) / s1)]),
             ("equality-to-number", e == ca.MX(cst), s1, [("eq", (e - ca.MX(cst)) / s1)]),
             ("equality-of-expressions", e == e2, s1, [("eq", (e - e2) / s1)]),
             ("vector-with-vector-scale", ev <= 1.0, s2, [("le", (ev - 1.0) / s2)]),
             ("unscaled", e <= ca.MX(cst), 1, [("le", e - ca.MX(cst))])]
    for name, con, sc, want in cases:
        opti.subject_to()                     # clear
        opti.constraints = []
        opti.subject_to(con, scale=sc)
        opti.transcribe_placeholders(2, lambda lst, **k: lst)
        rows = nlp.emitted_rows(opti)
        exp = []
        for kind, r in want:
            r = ca.MX(r)
            for i in range(r.numel()):
                exp.append((kind, r.e[i], (name, i)))
        nlp.match_rows("direct_method:OptiWrapper.transcribe_placeholders:ensures:scaled[%s]" % name, rows, exp)
    # constant constraints
    opti.constraints = []
    opti.subject_to(ca.MX(1) <= 2)
    (c.ok if opti.constraints == [] else lambda n_, **k: c.fail(n_, "constant-true constraint recorded"))("direct_method:OptiWrapper.subject_to:ensures:constant-true-dropped", backend="z3")
    try:
        opti.subject_to(ca.MX(3) <= 2)
        c.fail("direct_method:OptiWrapper.subject_to:raises:constant-false", "no exception")
    except Exception:
        c.ok("direct_method:OptiWrapper.subject_to:raises:constant-false", backend="z3")
    # OptiWrapper.variable: scale * fresh variable, empty shapes
    v = opti.variable(2, 1, scale=s2)
    w = opti._vars[-1]
    nlp.prove_equal("direct_method:OptiWrapper.variable:ensures:scale-times-fresh-variable", v, ca.MX(s2) * w)
    c.prove("direct_method:OptiWrapper.variable:ensures:empty-shape", opti.variable(0, 1).shape == (0, 1))
    # set_initial on the scaled variable stores guess/scale: read back in physical units gives the guess
    g = unknown("guess", 2, 1)
    opti.cache_advanced()
    opti.set_initial(v, g)
    nlp.prove_equal("direct_method:OptiWrapper.set_initial:ensures:physical-guess-read-back", opti.value(v, opti.initial()), ca.MX(g))
    nlp.prove_equal("direct_method:OptiWrapper.set_initial:ensures:solver-variable-starts-at-guess-over-scale", opti.value(w, opti.initial()), ca.MX(g) / ca.MX(s2))


_tasks0 = tasks


def tasks(tier):
    return _tasks0(tier) + [Task("C14/proof/scaling-branch", scaling_branch, kind="proof",
                                 functions=["direct_method:OptiWrapper.subject_to", "direct_method:OptiWrapper.transcribe_placeholders", "direct_method:OptiWrapper.variable", "direct_method:OptiWrapper.set_initial"],
                                 bound=dict(constraint_types="all canon_expr types", scale="symbolic positive, scalar and vector", expressions="uninterpreted"))]
