"""Exact numeric refutation of term equalities (engine side only).

`distinct(c, ta, tb)` answers True only when ta != tb is CERTAIN under the current path condition: it builds ONE concrete
interpretation -- every uninterpreted constant a small positive integer, every uninterpreted function a fixed polynomial
with integer coefficients of its arguments -- checks with exact rational arithmetic that every assertion of the path
condition holds under it, and evaluates both terms in the prime field GF(2^61-1).  Reduction modulo p is a ring homomorphism
on the rationals whose denominators are not divisible by p, so different images mean different rational values, i.e. the
interpretation is a genuine counter-model of `ta == tb`.  Anything it cannot evaluate (quantifiers, non-integer powers,
a zero divisor modulo p, a violated or unsupported assertion, ...) makes it answer False = "no opinion", and the caller
falls back to the solver.  It therefore never turns an equality into a refutation that z3 would not also be entitled to;
it only spares the solver the many hopeless comparisons of multiset matching (which time out one by one on mutated code).
"""
import hashlib
from fractions import Fraction
import z3

P = (1 << 61) - 1


class Unsupported(Exception):
    pass


def _h(*parts):
    return int.from_bytes(hashlib.sha256("|".join(str(p) for p in parts).encode()).digest()[:6], "little")


_CONST = {}


def _const_value(name):
    v = _CONST.get(name)
    if v is None:
        v = _CONST[name] = 2 + _h("const", name) % 89
    return v


def _uf_value(name, args, mod):
    """fixed polynomial with integer coefficients (the same over Q and modulo p)"""
    v = 1 + _h("uf0", name) % 53
    for i, a in enumerate(args):
        c1 = 1 + _h("uf1", name, i) % 31
        c2 = 1 + _h("uf2", name, i) % 7
        v = v + c1 * a + c2 * a * a
        if mod:
            v %= P
    if len(args) > 1:
        v = v + (1 + _h("ufx", name) % 5) * args[0] * args[-1]
    return v % P if mod else v


def _inv(a):
    a %= P
    if a == 0:
        raise Unsupported("division by zero modulo p")
    return pow(a, P - 2, P)


_BIG = 1 << 4096


def _eval(t, mod, memo, exact_memo=None):
    """iterative post-order evaluation; mod=True: integers modulo P, else exact Fractions / bools"""
    if exact_memo is None:
        exact_memo = {}
    stack = [(t, False)]
    while stack:
        x, done = stack.pop()
        key = x.get_id()
        if key in memo:
            continue
        if not z3.is_app(x):
            raise Unsupported("quantifier / variable")
        ch = x.children()
        if not done:
            stack.append((x, True))
            for c_ in ch:
                if c_.get_id() not in memo:
                    stack.append((c_, False))
            continue
        k = x.decl().kind()
        a = [memo[c_.get_id()] for c_ in ch]
        if z3.is_rational_value(x) or z3.is_int_value(x):
            n, d = (x.numerator_as_long(), x.denominator_as_long()) if z3.is_rational_value(x) else (x.as_long(), 1)
            v = (n % P) * _inv(d) % P if mod else Fraction(n, d)
        elif z3.is_algebraic_value(x):
            raise Unsupported("algebraic number")
        elif k == z3.Z3_OP_UNINTERPRETED:
            if z3.is_bool(x):
                raise Unsupported("boolean symbol")
            name = x.decl().name()
            v = (_const_value(name) if not ch else _uf_value(name, a, mod))
            if not mod:
                v = Fraction(v)
        elif k == z3.Z3_OP_ADD:
            v = sum(a) % P if mod else sum(a, Fraction(0))
        elif k == z3.Z3_OP_MUL:
            v = 1 if mod else Fraction(1)
            for y in a:
                v = v * y % P if mod else v * y
        elif k == z3.Z3_OP_SUB:
            v = a[0]
            for y in a[1:]:
                v = v - y
            if mod:
                v %= P
        elif k == z3.Z3_OP_UMINUS:
            v = (-a[0]) % P if mod else -a[0]
        elif k == z3.Z3_OP_DIV:
            if mod:
                v = a[0] * _inv(a[1]) % P
            else:
                if a[1] == 0:
                    raise Unsupported("division by zero")
                v = a[0] / a[1]
        elif k == z3.Z3_OP_POWER:
            e = ch[1]
            if not (z3.is_rational_value(e) or z3.is_int_value(e)):
                raise Unsupported("symbolic exponent")
            ev = Fraction(e.numerator_as_long(), e.denominator_as_long()) if z3.is_rational_value(e) else Fraction(e.as_long())
            if ev.denominator != 1 or abs(ev.numerator) > 64:
                raise Unsupported("non-integer exponent")
            n = ev.numerator
            if mod:
                v = pow(a[0], n, P) if n >= 0 else pow(_inv(a[0]), -n, P)
            else:
                if n < 0 and a[0] == 0:
                    raise Unsupported("division by zero")
                v = a[0] ** n
        elif k in (z3.Z3_OP_TO_REAL, z3.Z3_OP_TO_INT):
            if k == z3.Z3_OP_TO_INT and not mod and a[0].denominator != 1:
                raise Unsupported("to_int of a non-integer")
            if k == z3.Z3_OP_TO_INT and mod:
                raise Unsupported("to_int modulo p")
            v = a[0]
        elif k == z3.Z3_OP_ITE:
            # the condition is decided exactly (never modulo p)
            cond = _eval(ch[0], False, exact_memo) if mod else a[0]
            v = a[1] if cond else a[2]
        elif mod and z3.is_bool(x):
            v = None             # boolean subterms are only needed as if-then-else conditions, evaluated exactly above
        elif k == z3.Z3_OP_TRUE:
            v = True
        elif k == z3.Z3_OP_FALSE:
            v = False
        elif k in (z3.Z3_OP_LE, z3.Z3_OP_LT, z3.Z3_OP_GE, z3.Z3_OP_GT):
            v = {z3.Z3_OP_LE: a[0] <= a[1], z3.Z3_OP_LT: a[0] < a[1], z3.Z3_OP_GE: a[0] >= a[1], z3.Z3_OP_GT: a[0] > a[1]}[k]
        elif k == z3.Z3_OP_EQ:
            v = a[0] == a[1]
        elif k == z3.Z3_OP_DISTINCT:
            v = len(set(a)) == len(a)
        elif k == z3.Z3_OP_NOT:
            v = not a[0]
        elif k == z3.Z3_OP_AND:
            v = all(a)
        elif k == z3.Z3_OP_OR:
            v = any(a)
        elif k == z3.Z3_OP_IMPLIES:
            v = (not a[0]) or a[1]
        elif k == z3.Z3_OP_XOR or k == z3.Z3_OP_IFF:
            v = (a[0] != a[1]) if k == z3.Z3_OP_XOR else (a[0] == a[1])
        else:
            raise Unsupported("operator %s" % x.decl().name())
        if not mod and isinstance(v, Fraction) and (abs(v.numerator) > _BIG or v.denominator > _BIG):
            raise Unsupported("exact value too large")
        memo[key] = v
    return memo[t.get_id()]


_PC = {}


def _path_condition_holds(c):
    """every assertion of the path condition is true under the interpretation (exact arithmetic)"""
    if getattr(c, "_numfilter_off", False):
        return False            # an assertion of this path failed / was unsupported before: the path only grows
    asserts = c.solver.assertions()
    key = (id(c), len(asserts))
    if key in _PC:
        return _PC[key]
    ok = True
    try:
        memo = {}
        for a in asserts:
            if _eval(a, False, memo) is not True:
                ok = False
                break
    except (Unsupported, z3.Z3Exception, OverflowError, ZeroDivisionError, RecursionError):
        ok = False
    _PC.clear()
    _PC[key] = ok
    if not ok:
        try:
            c._numfilter_off = True
        except AttributeError:
            pass
    return ok


STATS = {"asked": 0, "distinct": 0, "no-opinion": 0}


def distinct(c, ta, tb):
    """True: ta != tb for certain under the path condition of c (see module docstring); False: no opinion"""
    STATS["asked"] += 1
    try:
        if not _path_condition_holds(c):
            STATS["no-opinion"] += 1
            return False
        memo = {}
        va, vb = _eval(ta, True, memo), _eval(tb, True, memo)
    except (Unsupported, z3.Z3Exception, OverflowError, ZeroDivisionError, RecursionError):
        STATS["no-opinion"] += 1
        return False
    if va != vb:
        STATS["distinct"] += 1
        return True
    return False
