HOOK_COMMITS = []
NOTES = ("Contract-based deductive verification of the real rockit sources: the functions under contract are executed by CPython on a z3-backed model of "
         "CasADi (assumed dependency contracts), obligations are discharged by z3. 'bounded' obligations fix the structure parameters (N, M, dims) and are "
         "never counted as proved. Exit codes: 0 held / 1 VIOLATION / 2 undecided / 3 checker defect.")
_BT = "real functions executed on a z3-backed CasADi model; emitted NLP vs. oracle from the property text; z3-discharged"
CHECKS = {
    "C01": dict(category="other", technique="sidecar contracts + self-generated VCs (z3) on the real functions; bounded structure", text="gap-closing rows equal the RK4/Euler/discrete oracle with uninterpreted dynamics for all numeric values; structure (N,M,dims) enumerated", note="assumes model/casadi (A-CASADI, A-OPTI), floats as reals"),
    "C02": dict(category="other", technique=_BT, text="collocation defect/algebraic/continuity rows equal the Lagrange oracle for degree 1..5 x radau/legendre", note="assumes model/casadi, floats as reals"),
    "C04": dict(category="other", technique=_BT, text="multiset of emitted rows = placement oracle (every grid, include_first/last, offsets, scales); nothing else emitted; unplaceable grid rejected", note="assumes model/casadi"),
    "C05": dict(category="other", technique=_BT, text="objective handed to Opti = sum of declared terms of every kind", note="assumes model/casadi"),
    "C06": dict(category="other", technique=_BT, text="control/integrator grids equal the declared partition; coupling rows are equivalent to it incl. min/max", note="assumes model/casadi; irrational geometric growth factors within 1e-9"),
    "C07": dict(category="other", technique=_BT + "; DM2numpy enumerated with the real numpy", text="sample(e, grid) on every grid (control, control-, integrator, integrator-, integrator_roots, integrator+refine) returns e at each point's own values and times, one time per column; value(e); DM2numpy index map", note="assumes model/casadi; numeric read-back = Opti.value of the same expression (A-OPTI)"),
    "C08": dict(category="other", technique=_BT, text="refined samples lie on the stored per-step polynomial; polynomial starts at the step start, ends at the step end, has the ODE slope (explicit) / interpolates the helper states with slope Xc*C/h (collocation); every r-th entry is the integrator sample", note="assumes model/casadi; convergence statements by citation (A-MATH-RK); sampler() not yet under contract"),
    "C09": dict(category="other", technique=_BT, text="parameters of every kind reach exactly the rows/objective of their interval", note="assumes model/casadi"),
    "C10": dict(category="other", technique=_BT, text="starting value of every decision variable, read back in physical units, equals the guess oracle (constants, column arrays, time expressions, last call wins, helper states)", note="assumes model/casadi; n-by-N arrays for node quantities: final node takes the last column"),
    "C11": dict(category="other", technique=_BT, text="free/fixed/parametric horizon give the same oracle rows plus T>=0", note="assumes model/casadi"),
    "C13": dict(category="proof", technique="structural proof obligations over the AST of every public mutator (invalidate-or-reapply, clean-completeness, clean start) + bounded history obligations on the casadi model", text="every public method of Stage/Ocp that writes a specification field invalidates the transcription or re-applies and records the change; clean() resets every accumulating attribute; re-transcription starts clean (all for the current source, no bound). 14 histories x methods: NLP, start, parameter values and solver equal those of the freshly written OCP (bounded)", note="whole-history quantification is reduced to the discipline by the induction argument in DESIGN.md; deepcopy contract assumed"),
    "C14": dict(category="other", technique=_BT, text="rows with symbolic positive scales equal oracle rows divided by scale", note="assumes model/casadi"),
}
CHECKS["C20"] = dict(category="other", technique=_BT + "; AST scan of exception handlers", text="34 ill-posed specifications x 3 methods are each rejected by declaration/transcription of the real code; only documented exception handlers exist on the transcription path", note="fault catalogue is finite (positions of the missing derivative enumerated for n<=3); SplineMethod faults not covered; model rejections validated against the real CasADi natively")
NOT_APPLICABLE = {
    "C18": "save/load is pickle + CasADi's serializer; no contract on rockit code can express it (DESIGN.md section 8)",
    "C19": "both sides of the equation are NLP-solver runs (DESIGN.md section 8)",
}
for _p in ("C03", "C12", "C15", "C16", "C17"):
    NOT_APPLICABLE[_p] = "check under construction in this session (will be claimed once it is green on the unchanged tree)"
