"""
C01 / C04 (shooting part): unbounded contract of MultipleShooting.add_constraints and
SingleShooting.add_constraints for a SYMBOLIC number N of control intervals.

The function under contract is the real source, with its `for` loops instrumented by vc.loops;
helpers without a contract of their own (discrete_system, intg_rk, get_p_sys, eval_at_*,
_expr_apply, ...) are executed as they are (inlined), so a change in any of them is seen here.
"""
import z3
import casadi as ca

from vc.core import ctx, SymInt, SymBool, fresh_int, unwrap_int
from vc.symlist import SymList
from vc import loops, contract
from vc.runner import Task
from .backend import ufun
from .unbounded import Pre


def _flag(name):
    return SymBool(z3.Bool(name))


def ms_add_constraints(M, intg, with_path=True):
    """MultipleShooting.add_constraints: for every N >= 1 and every interval k < N"""
    import rockit.multiple_shooting as msm
    from rockit import MultipleShooting
    pre = Pre(method="MS", M=M, intg=intg)
    ocp, meth, opti, N = pre.ocp, pre.meth, pre.opti, pre.N
    x, u, t = pre.x, pre.u, ocp.t
    cons = []
    if with_path:
        f1, l1 = _flag("include_first_1"), _flag("include_last_1")
        f2, l2 = _flag("include_first_2"), _flag("include_last_2")
        e1 = ufun("c1", 1, [x, u, t, pre.pc, pre.vc, pre.pcp, pre.vcp, pre.p, pre.v])
        ocp.subject_to(e1 <= 1.0, include_first=f1, include_last=l1)
        e2 = ufun("c2", 1, [x, u, t, pre.pc])
        ocp.subject_to(e2 <= 2.0, grid="integrator", include_first=f2, include_last=l2)
        e3 = ufun("b0", 1, [ocp.at_t0(x), pre.p])
        ocp.subject_to(e3 == 0.0)
        e4 = ufun("bf", 1, [ocp.at_tf(x)])
        ocp.subject_to(e4 <= 0.0)
        # shifted operands: instances that would reach outside the horizon are dropped, nothing else
        ocp.subject_to(ufun("co", 1, [x, ocp.next(x)]) <= 5.0)
        ocp.subject_to(ufun("cp", 1, [x, ocp.prev(x), u]) <= 6.0)
        ocp.subject_to(ufun("cm", 1, [ocp.next(x), x, ocp.prev(x)]) <= 7.0)        # two different shifts in one constraint
        cons = [(e1, f1, l1), (e2, f2, l2)]
    QUAL = "multiple_shooting:MultipleShooting.add_constraints"
    scale_x = pre.scale_x

    def FF_of(F, j):
        return F(x0=meth.X[j], u=meth.U[j], t0=meth.control_grid[j], T=meth.control_grid[unwrap_int(j + 1)] - meth.control_grid[j],
                 p=meth.get_p_sys(ocp, j), z0=meth.Z0[j])

    # ---- loop 0: bookkeeping of the per-interval integrator results -----------------------
    def state0(k, env):
        F = env["F"]
        def xk_at(idx):
            j, i = unwrap_int(idx // M), unwrap_int(idx % M)
            Xi = FF_of(F, j)["Xi"]
            for ii in range(M):
                if i == ii:
                    return Xi[:, ii]
        def pc_at(idx):
            j, i = unwrap_int(idx // M), unwrap_int(idx % M)
            pcs = ca.horzsplit(FF_of(F, j)["poly_coeff"], FF_of(F, j)["poly_coeff"].shape[1] // M)
            for ii in range(M):
                if i == ii:
                    return pcs[ii]
        st = {
            "FFs": SymList(k, lambda j: FF_of(F, j), "FFs"),
            "self.xk": SymList(unwrap_int(k * M), xk_at, "xk"),
            "self.xqk": SymList(unwrap_int(k * M + 1), lambda idx: ca.DM.zeros(0) if idx == 0 else ca.MX(0, 1), "xqk"),
            "self.zk": SymList(unwrap_int(k * M), lambda idx: ca.MX(0, 1), "zk"),
            "self.Z": SymList(0 if (isinstance(k, int) and k == 0) else (unwrap_int(k + 1) if not isinstance(k, SymInt) else None), lambda idx: ca.MX(0, 1), "Z"),
            "self.Q": SymList(unwrap_int(N + 1), lambda idx, k=k: ca.DM.zeros(0) if idx == 0 else (ca.MX(0, 1) if idx <= k else None), "Q"),
            "self.q": 0 if (isinstance(k, int) and k == 0) else ca.MX(0, 1),
        }
        if isinstance(k, SymInt):
            if k == 0:
                st["self.Z"] = SymList(0, lambda idx: ca.MX(0, 1), "Z")
                st["self.q"] = 0
            else:
                st["self.Z"] = SymList(unwrap_int(k + 1), lambda idx: ca.MX(0, 1), "Z")
        if env["self"].poly_coeff is not None:
            st["self.poly_coeff"] = SymList(unwrap_int(k * M), pc_at, "poly_coeff")
        return st

    # ---- loop 1: what iteration k must emit ---------------------------------------------
    def emits1(k, env):
        rows = []
        xs = pre.propagate(k, pre.Xf(k), intg)
        # C01: residual of the gap-closing row = node state - propagated state, scaled like the state
        rows.append((("gap",), "eq", pre.Xf(unwrap_int(k + 1)) - xs[-1], scale_x))
        if not cons:
            return rows
        d = pre.env(k)
        tk = ca.MX._raw(1, 1, [pre.tg(k)])
        if k == 0:
            # boundary constraints that do not mention the final time are placed with the first interval
            rows.append((("point", "b0"), "expr", meth.eval(ocp, e3) == 0.0, 1))
        h = (ca.MX._raw(1, 1, [pre.tg(unwrap_int(k + 1))]) - tk) / M
        for l in range(M):
            skip = (k == 0) & ~cons[1][1] if l == 0 else False
            if l == 0 and skip:
                continue
            tl = tk + l * h if l else tk
            rows.append((("integrator", l), "le", ufun("c2", 1, [xs[l], d["u"], tl, d["pc"]]) - 2.0, 1))
        if not ((k == 0) & ~cons[0][1]):
            rows.append((("control",), "le", ufun("c1", 1, [pre.Xf(k), d["u"], tk, d["pc"], d["vc"], pre.Pcpf(k), pre.Vcpf(k), d["p"], d["v"]]) - 1.0, 1))
        rows.append((("next",), "le", ufun("co", 1, [pre.Xf(k), pre.Xf(unwrap_int(k + 1))]) - 5.0, 1))       # node k+1 <= N always exists
        if not (k == 0):
            rows.append((("prev",), "le", ufun("cp", 1, [pre.Xf(k), pre.Xf(unwrap_int(k - 1)), d["u"]]) - 6.0, 1))   # node -1 does not exist
            rows.append((("mixed",), "le", ufun("cm", 1, [pre.Xf(unwrap_int(k + 1)), pre.Xf(k), pre.Xf(unwrap_int(k - 1))]) - 7.0, 1))
        return rows

    loops.SPECS.clear()
    loops.SPECS[(QUAL, 0)] = loops.LoopSpec(state=state0)
    loops.SPECS[(QUAL, 1)] = loops.LoopSpec(emits=emits1)

    with loops.patched(MultipleShooting, "add_constraints", QUAL) as P:
        n0 = len(opti.constraints)
        meth.add_constraints(ocp, opti)
    emitted = opti.constraints[n0:]
    # ---- post: outside the loops only the loop summary and the final-node instances ----------
    expected = [("marker", QUAL, 1)]
    if cons:
        Nn = N
        d = pre.env(unwrap_int(N - 1), node=N)
        tN = ca.MX._raw(1, 1, [pre.tg(N)])
        if cons[0][2]:
            expected.append((("control", "final"), "le", ufun("c1", 1, [pre.Xf(N), d["u"], tN, d["pc"], d["vc"], pre.Pcpf(N), pre.Vcpf(N), d["p"], d["v"]]) - 1.0, 1))
        if cons[1][2]:
            expected.append((("integrator", "final"), "le", ufun("c2", 1, [pre.Xf(N), d["u"], tN, d["pc"]]) - 2.0, 1))
        # final node: next() reaches node N+1 -> dropped; prev() is node N-1
        expected.append((("prev", "final"), "le", ufun("cp", 1, [pre.Xf(N), pre.Xf(unwrap_int(N - 1)), d["u"]]) - 6.0, 1))
    contract.EmissionChecker(opti).compare(QUAL + ":ensures:outside-loops", emitted, expected)
    # post-state used by sampling (C07/C08): X untouched, xk closed by the final node state
    c = ctx()
    contract.compare(QUAL + ":ensures:xk-last-is-final-state", meth.xk[-1], pre.Xf(N))
    c.prove(QUAL + ":ensures:len-xk", (vc_len(meth.xk) == N * M + 1))


def ss_add_constraints(M, intg):
    """SingleShooting.add_constraints: for every N >= 1: the states it reports are the recursion
    X[0] = initial-state variable, X[k+1] = M textbook steps from X[k]; no gap rows; placement."""
    from rockit import SingleShooting
    pre = Pre(method="SS", M=M, intg=intg)
    ocp, meth, opti, N = pre.ocp, pre.meth, pre.opti, pre.N
    x, u, t = pre.x, pre.u, ocp.t
    f1, l1 = _flag("include_first_1"), _flag("include_last_1")
    f2, l2 = _flag("include_first_2"), _flag("include_last_2")
    e1 = ufun("c1", 1, [x, u, t, pre.pc, pre.vc, pre.pcp, pre.vcp, pre.p, pre.v])
    ocp.subject_to(e1 <= 1.0, include_first=f1, include_last=l1)
    e2 = ufun("c2", 1, [x, u, t, pre.pc])
    ocp.subject_to(e2 <= 2.0, grid="integrator", include_first=f2, include_last=l2)
    e3 = ufun("b0", 1, [ocp.at_t0(x), pre.p])
    ocp.subject_to(e3 == 0.0)
    e4 = ufun("bf", 1, [ocp.at_tf(x)])
    ocp.subject_to(e4 <= 0.0)
    ocp.subject_to(ufun("co", 1, [x, ocp.next(x)]) <= 5.0)
    ocp.subject_to(ufun("cp", 1, [x, ocp.prev(x), u]) <= 6.0)
    ocp.subject_to(ufun("cm", 1, [ocp.next(x), x, ocp.prev(x)]) <= 7.0)
    QUAL = "single_shooting:SingleShooting.add_constraints"
    c = ctx()
    # spec function of the recursion: Psi(0) = X0, Psi(j+1) = last of propagate(j, Psi(j))   (oracle steps)
    Psi_f = opti.family("Psi", x.numel())
    X0 = pre.Xf(0)

    def Psi(j):
        j = unwrap_int(j)
        if isinstance(j, int) and j == 0:
            return X0
        if isinstance(j, SymInt) and j == 0:
            return X0
        return Psi_f(j)

    def unfold(j):
        """instantiate the defining recurrence at j:  Psi(j+1) := oracle steps from Psi(j)"""
        nxt = Psi_f(unwrap_int(j + 1))
        val = pre.propagate(j, Psi(j), intg)[-1]
        for a, b in zip(nxt.e, val.e):
            c.subst.append((a, ca.tz(b)))

    def FF_of(F, j):
        return F(x0=Psi(j), u=meth.U[j], t0=meth.control_grid[j], T=meth.control_grid[unwrap_int(j + 1)] - meth.control_grid[j],
                 p=meth.get_p_sys(ocp, j), z0=meth.Z0[0])

    def state0(k, env):
        F = env["F"]
        def xk_at(idx):
            j, i = unwrap_int(idx // M), unwrap_int(idx % M)
            Xi = FF_of(F, j)["Xi"]
            for ii in range(M):
                if i == ii:
                    return Xi[:, ii]
        def pc_at(idx):
            j, i = unwrap_int(idx // M), unwrap_int(idx % M)
            pcs = ca.horzsplit(FF_of(F, j)["poly_coeff"], FF_of(F, j)["poly_coeff"].shape[1] // M)
            for ii in range(M):
                if i == ii:
                    return pcs[ii]
        st = {
            "FFs": SymList(k, lambda j: FF_of(F, j), "FFs"),
            "self.X": SymList(unwrap_int(N + 1), lambda j, k=k: Psi(j) if j <= k else None, "X"),
            "self.xk": SymList(unwrap_int(k * M), xk_at, "xk"),
            "self.xqk": SymList(unwrap_int(k * M + 1), lambda idx: ca.DM.zeros(0) if idx == 0 else ca.MX(0, 1), "xqk"),
            "self.zk": SymList(unwrap_int(k * M), lambda idx: ca.MX(0, 1), "zk"),
            "self.Q": SymList(unwrap_int(N + 1), lambda idx, k=k: ca.DM.zeros(0) if idx == 0 else (ca.MX(0, 1) if idx <= k else None), "Q"),
            "self.q": ca.DM.zeros(0) if (isinstance(k, int) and k == 0) else ca.MX(0, 1),
        }
        if isinstance(k, SymInt):
            if k == 0:
                st["self.Z"] = SymList(0, lambda idx: ca.MX(0, 1), "Z")
                st["self.q"] = ca.DM.zeros(0)
            else:
                st["self.Z"] = SymList(unwrap_int(k + 1), lambda idx: ca.MX(0, 1), "Z")
        else:
            st["self.Z"] = SymList(0 if k == 0 else k + 1, lambda idx: ca.MX(0, 1), "Z")
        if env["self"].poly_coeff is not None:
            st["self.poly_coeff"] = SymList(unwrap_int(k * M), pc_at, "poly_coeff")
        return st

    def emits1(k, env):
        rows = []
        xs = pre.propagate(k, Psi(k), intg)
        d = pre.env(k)
        tk = ca.MX._raw(1, 1, [pre.tg(k)])
        h = (ca.MX._raw(1, 1, [pre.tg(unwrap_int(k + 1))]) - tk) / M
        for l in range(M):
            if l == 0 and ((k == 0) & ~f2):
                continue
            tl = tk + l * h if l else tk
            rows.append((("integrator", l), "le", ufun("c2", 1, [xs[l], d["u"], tl, d["pc"]]) - 2.0, 1))
        if not ((k == 0) & ~f1):
            rows.append((("control",), "le", ufun("c1", 1, [Psi(k), d["u"], tk, d["pc"], d["vc"], pre.Pcpf(k), pre.Vcpf(k), d["p"], d["v"]]) - 1.0, 1))
        rows.append((("next",), "le", ufun("co", 1, [Psi(k), Psi(unwrap_int(k + 1))]) - 5.0, 1))
        if not (k == 0):
            rows.append((("prev",), "le", ufun("cp", 1, [Psi(k), Psi(unwrap_int(k - 1)), d["u"]]) - 6.0, 1))
            rows.append((("mixed",), "le", ufun("cm", 1, [Psi(unwrap_int(k + 1)), Psi(k), Psi(unwrap_int(k - 1))]) - 7.0, 1))
        return rows

    loops.SPECS.clear()
    loops.SPECS[(QUAL, 0)] = loops.LoopSpec(state=state0, unfold=lambda k, env: unfold(k))
    loops.SPECS[(QUAL, 1)] = loops.LoopSpec(emits=emits1)
    with loops.patched(SingleShooting, "add_constraints", QUAL):
        n0 = len(opti.constraints)
        meth.add_constraints(ocp, opti)
    emitted = opti.constraints[n0:]
    expected = [(("point", "b0"), "expr", meth.eval(ocp, e3) == 0.0, 1), ("marker", QUAL, 1)]
    d = pre.env(unwrap_int(N - 1), node=N)
    tN = ca.MX._raw(1, 1, [pre.tg(N)])
    if l1:
        expected.append((("control", "final"), "le", ufun("c1", 1, [Psi(N), d["u"], tN, d["pc"], d["vc"], pre.Pcpf(N), pre.Vcpf(N), d["p"], d["v"]]) - 1.0, 1))
    if l2:
        expected.append((("integrator", "final"), "le", ufun("c2", 1, [Psi(N), d["u"], tN, d["pc"]]) - 2.0, 1))
    expected.append((("prev", "final"), "le", ufun("cp", 1, [Psi(N), Psi(unwrap_int(N - 1)), d["u"]]) - 6.0, 1))
    contract.EmissionChecker(opti).compare(QUAL + ":ensures:outside-loops", emitted, expected)
    # C01: the reported states are the recursion
    j = fresh_int("j")
    c.assume((j >= 0).z)
    c.assume((j <= N).z)
    contract.compare(QUAL + ":ensures:reported-state-is-the-recursion", meth.X[j], Psi(j))
    contract.compare(QUAL + ":ensures:xk-last-is-final-state", meth.xk[-1], Psi(N))


def vc_len(x):
    from vc.symlist import vc_len as f
    return f(x)


def tasks(tier):
    out = []
    combos = [(1, "rk"), (2, "rk"), (2, "expl_euler")] if tier != "thorough" else [(1, "rk"), (2, "rk"), (3, "rk"), (1, "expl_euler"), (2, "expl_euler"), (3, "expl_euler")]
    for M, intg in combos:
        out.append(Task("C01/proof/MS.add_constraints[N symbolic, M=%d, %s]" % (M, intg),
                        lambda M=M, intg=intg: ms_add_constraints(M, intg), kind="proof",
                        functions=["multiple_shooting:MultipleShooting.add_constraints"],
                        replay=dict(harness="nlp_diff_any", families=[["C04", ["MS-"]], ["C01", ["MS-"]], ["C09", ["MS-"]]], parts=["dynamics", "placement"]),
                        bound=dict(N="symbolic (all N>=1)", k="symbolic (all 0<=k<N)", M=M, intg=intg, dims="nx=2,nu=1, one parameter/variable of every grid kind"),
                        note="loops cut by closed-form invariants; helpers inlined"))
    for M, intg in combos:
        out.append(Task("C01/proof/SS.add_constraints[N symbolic, M=%d, %s]" % (M, intg),
                        lambda M=M, intg=intg: ss_add_constraints(M, intg), kind="proof",
                        functions=["single_shooting:SingleShooting.add_constraints"],
                        replay=dict(harness="nlp_diff_any", families=[["C04", ["SS-"]], ["C01", ["SS-"]], ["C09", ["SS-"]]], parts=["dynamics", "placement", "ss-states"]),
                        bound=dict(N="symbolic (all N>=1)", k="symbolic", M=M, intg=intg, dims="nx=2,nu=1"),
                        note="recursion Psi defined by the oracle step; loops cut by closed-form invariants"))
    return out
