"""
C05 (unbounded part): the sum-type objective terms for a SYMBOLIC number of intervals.

  SamplingMethod.fill_placeholders_sum_control       returns  S(N),   S(0)=0, S(k+1) = S(k) + e(node k)
  SamplingMethod.fill_placeholders_sum_control_plus  returns  S(N+1)  (the final node included)
  SamplingMethod.fill_placeholders_at_t0 / at_tf     return   e(node 0) / e(node N)
where e(node j) is the oracle's evaluation: state X[j], time t_j, control / per-interval parameters and variables
of interval min(j, N-1), include_last quantities of node j.  The recurrence is the specification; what is proved
is that the loop body adds exactly that term (inv-step) starting from 0 (inv-init).
"""
import z3
import casadi as ca

from vc.core import ctx, SymInt, fresh_int, unwrap_int
from vc.symlist import SymList
from vc import loops, contract
from vc.runner import Task
from .backend import ufun
from .unbounded import Pre
from . import nlp


def node_value(pre, name, j, N):
    """oracle: the expression `name` at control node j (0..N)"""
    ki = j
    if isinstance(j, SymInt):
        if j == N:
            ki = unwrap_int(N - 1)
    elif isinstance(N, SymInt):
        pass
    d = pre.env(ki, node=j)
    return ufun(name, 1, [pre.Xf(j), d["u"], ca.MX._raw(1, 1, [pre.tg(j)]), d["pc"], d["pcp"], d["vc"], d["vcp"], d["p"], d["v"]])


def sums(method):
    import rockit.sampling_method as sm
    from rockit.sampling_method import SamplingMethod
    pre = Pre(method=method, M=1)
    ocp, meth, opti, N = pre.ocp, pre.meth, pre.opti, pre.N
    c = ctx()
    x, u, t = pre.x, pre.u, ocp.t
    e = ufun("s", 1, [x, u, t, pre.pc, pre.pcp, pre.vc, pre.vcp, pre.p, pre.v])
    if method == "SS":
        # single shooting: node states are expressions; any closed form will do for this contract
        Psi = opti.family("Psi", x.numel())
        pre.Xf = lambda k: Psi(k)
        meth.X = SymList(unwrap_int(N + 1), pre.Xf, "X")
    S = z3.Function("SumSpec", z3.IntSort(), z3.RealSort())

    c.subst.append((S(z3.IntVal(0)), z3.RealVal(0)))        # S(0) = 0

    def Sv(k):
        k = unwrap_int(k)
        return ca.MX._raw(1, 1, [S(k.z if isinstance(k, SymInt) else z3.IntVal(k))])

    def unfold(k):
        """S(k+1) := S(k) + e(node k)"""
        nxt = S((k + 1).z if isinstance(k, SymInt) else z3.IntVal(k + 1))
        tot = Sv(k) + node_value(pre, "s", k, N)
        c.subst.append((nxt, ca.tz(ca.MX(tot).e[0])))

    def state(k, env):
        return {"r": Sv(k)}

    def unfold_at(k, env):
        unfold(k)

    for fname, plus in (("fill_placeholders_sum_control", False), ("fill_placeholders_sum_control_plus", True)):
        QUAL = "sampling_method:SamplingMethod." + fname
        loops.SPECS.clear()
        loops.SPECS[(QUAL, 0)] = loops.LoopSpec(state=state, unfold=unfold_at)
        with loops.patched(SamplingMethod, fname, QUAL):
            r = getattr(meth, fname)(2, ocp, e)
        want = Sv(unwrap_int(N + 1) if plus else N)
        contract.compare(QUAL + ":ensures:returns-the-sum-over-%s" % ("all-nodes" if plus else "the-N-intervals"), r, want)
        r1 = getattr(meth, fname)(1, ocp, e)
        (c.ok if r1 is None else lambda n_, **k: c.fail(n_, "phase 1 must not evaluate"))(QUAL + ":ensures:phase-1-defers", backend="z3")
    nlp.prove_equal("sampling_method:SamplingMethod.fill_placeholders_at_t0:ensures:first-node", meth.fill_placeholders_at_t0(2, ocp, e), node_value(pre, "s", 0, N))
    nlp.prove_equal("sampling_method:SamplingMethod.fill_placeholders_at_tf:ensures:final-node", meth.fill_placeholders_at_tf(2, ocp, e), node_value(pre, "s", N, N))


def tasks(tier):
    out = []
    for m in ("MS", "SS"):
        out.append(Task("C05/proof/sum-terms[%s, N symbolic]" % m, lambda m=m: sums(m), kind="proof",
                        functions=["sampling_method:SamplingMethod.fill_placeholders_sum_control", "sampling_method:SamplingMethod.fill_placeholders_sum_control_plus",
                                   "sampling_method:SamplingMethod.fill_placeholders_at_t0", "sampling_method:SamplingMethod.fill_placeholders_at_tf"],
                        replay=dict(harness="nlp_diff_any", families=[["C05", [m + "-"]]], parts=["objective"]),
                        bound=dict(N="symbolic (all N>=1)", dims="nx=2,nu=1, one parameter/variable of every grid kind")))
    # several stages: the objective handed to the solver is the sum over all stages (and the master) of their declared terms
    from . import c12
    for i in range(40 if tier == "thorough" else 12):
        inst = "C05/R%03d-two-generated-stages" % i
        out.append(Task(inst, c12.guarded(lambda i=i: c12.generated_two_stages(i, prop="C05"), inst), kind="bounded", bound=dict(generated=[2 * i, 2 * i + 1]), replay=dict(harness="two_stage_probe", index=i)))
    return out
