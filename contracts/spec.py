"""
Abstract OCP specifications, their realisation through rockit's PUBLIC API, and the handles
(representation of the transcription) the oracles speak about.

A user expression is `E(name, nout, deps)`: an arbitrary (uninterpreted) function of the listed
ingredients.  The builder instantiates it on the stage's symbols, the oracle instantiates it
directly on the *values* of a grid point - no substitution machinery is shared with rockit.

Runs on both back ends (see backend.py).
"""
import casadi as ca
from .backend import ufun, unknown, MODEL

inf = float("inf")


class E:
    """user expression: name, number of outputs, ingredient atoms.
    atoms: 'x','u','z','t','p','pc','pcp','v','vc','vcp','T','t0','DT','DT_control','xq',
           ('off', atom, k)   operand shifted by k whole intervals (ocp.offset / next / prev)
    """

    def __init__(self, name, nout=1, deps=("x",)):
        self.name, self.nout, self.deps = name, nout, tuple(deps)

    # Higher-order controls (ocp.control(order=k)) add helper states and a helper control behind the user's own: on the
    # ORACLE side the state / control vectors are the full ones and the user's atoms are row selections of them.
    # VIEW = None (no higher-order control) or {'x': rows, 'u': rows, 'w': rows} ; set by the oracle for its specification.
    VIEW = None

    def on(self, get):
        """instantiate; get(atom) -> matrix"""
        args = []
        view = E.VIEW if not isinstance(getattr(get, "__self__", None), Spec) else None     # Spec.atom resolves the user's symbols itself
        for d in self.deps:
            if view is None:
                v = get(d)
            else:
                base = d[2] if isinstance(d, tuple) and d[0] == "at" else (d[1] if isinstance(d, tuple) else d)
                src = "x" if base == "w" else base
                key = d if not isinstance(d, tuple) else ((d[0], d[1], src) if d[0] == "at" else (d[0], src, d[2]))
                v = get(key if isinstance(d, tuple) else src)
                if v is not None and base in view:
                    v = ca.MX(v)[view[base]] if view[base] else None
            if v is not None:
                args.append(v)
        return ufun(self.name, self.nout, args)


class Con:
    def __init__(self, expr, kind="le", rhs=0.0, grid=None, include_first=True, include_last=True, scale=1, lhs=None):
        self.expr, self.kind, self.rhs, self.lhs = expr, kind, rhs, lhs
        self.grid, self.include_first, self.include_last, self.scale = grid, include_first, include_last, scale

    @staticmethod
    def bound(b, get):
        """a bound is a number, a vector of numbers (entries may be +-inf: no bound for that component) or an expression of
        PARAMETERS only (E over 'p' / 'pc' / 'pcp')"""
        return b.on(get) if isinstance(b, E) else b

    def relation(self, e, get=None):
        rhs, lhs = self.bound(self.rhs, get), self.bound(self.lhs, get)
        if self.kind == "le":
            return e <= rhs
        if self.kind == "ge":
            return e >= rhs
        if self.kind == "eq":
            return e == rhs
        if self.kind == "box":
            return lhs <= (e <= rhs)
        raise ValueError(self.kind)


class Spec:
    """One OCP + method configuration."""

    def __init__(self, **kw):
        self.method = kw.pop("method", "MS")              # MS / SS / DC
        self.N = kw.pop("N", 2)
        self.M = kw.pop("M", 1)
        self.intg = kw.pop("intg", "rk")
        self.degree = kw.pop("degree", 2)
        self.scheme = kw.pop("scheme", "radau")
        self.grid = kw.pop("grid", dict(kind="uniform"))
        self.T = kw.pop("T", ("fixed", 2.0))               # ('fixed',v) ('free',guess) ('param',) ('unknown',)
        self.t0 = kw.pop("t0", ("fixed", 0.0))
        self.states = kw.pop("states", [2])                # sizes
        self.controls = kw.pop("controls", [1])
        self.hoc = kw.pop("hoc", [])                       # higher-order controls: [(size, order >= 1), ...]  (atom 'w')
        self.algebraics = kw.pop("algebraics", [])
        self.params = kw.pop("params", {})                 # grid-kind -> sizes, e.g. {'':[1],'control':[1],'control+':[1]}
        self.variables = kw.pop("variables", {})
        self.ode = kw.pop("ode", E("f", None, ("x", "u", "t")))
        self.alg = kw.pop("alg", None)
        self.discrete = kw.pop("discrete", False)          # set_next instead of set_der
        self.constraints = kw.pop("constraints", [])
        self.objective = kw.pop("objective", [])           # list of (kind, E[, opts])
        self.initial = kw.pop("initial", [])
        self.initial_after = kw.pop("initial_after", 0)     # number of trailing guesses given AFTER the first transcription
        # history (C13): what is declared only AFTER a first transcription was queried.  dict with optional keys
        #   constraints: k   the last k constraints;  objective: k   the last k objective terms;
        #   pvals: True      every parameter value is replaced by a new one;   method: True   the method is set again;
        #   query: True      an extra query (sample) between the changes
        self.late = kw.pop("late", None) or {}
        # concat: right-hand sides and global parameter values are given through CONCATENATIONS of symbols
        # (ocp.set_der(vertcat(x1, x2), vertcat(f1, f2)), ocp.set_value(vertcat(p1, p2), vertcat(v1, v2))), in reversed symbol order
        self.concat = kw.pop("concat", False)
        # register: the symbols are the USER's own MX symbols handed to ocp.register_state / _control / _algebraic / _parameter /
        # _variable ("single": one call per symbol; "list": one call with the list of all symbols of a kind, where no scales differ)
        self.register = kw.pop("register", None)
        # C20: ONE specification fault injected into an otherwise well-posed specification: (kind, position)
        self.fault = kw.pop("fault", None)
        self.der_order = kw.pop("der_order", "declared")    # order of the set_der calls: 'declared' or 'reversed'
        self.scales = kw.pop("scales", {})                 # 'x': value/list, 'u', 'z', 'v', 'der'
        self.param_values = kw.pop("param_values", "unknown")
        self.solver = kw.pop("solver", "ipopt")
        self.label = kw.pop("label", None)
        self.expect_reject = kw.pop("expect_reject", None)
        self.extra = kw
        self.sym = {}

    def describe(self):
        d = dict(method=self.method, N=self.N, M=self.M, intg=self.intg, grid=self.grid, T=list(self.T), t0=list(self.t0),
                 states=self.states, controls=self.controls, hoc=self.hoc, algebraics=self.algebraics, params=self.params,
                 variables=self.variables, discrete=self.discrete, scales={k: str(v) for k, v in self.scales.items()})
        if self.method == "DC":
            d.update(degree=self.degree, scheme=self.scheme)
        if self.label:
            d["label"] = self.label
        return d

    # ------------------------------------------------------------------------------------
    def make_grid(self):
        from rockit import UniformGrid, GeometricGrid, FreeGrid
        g = dict(self.grid)
        kind = g.pop("kind", "uniform")
        if kind == "uniform":
            return UniformGrid(**g)
        if kind == "geometric":
            return GeometricGrid(g.pop("growth", 2.0), **g)
        if kind == "free":
            return FreeGrid(**g)
        raise ValueError(kind)

    def make_method(self):
        from rockit import MultipleShooting, SingleShooting, DirectCollocation
        kw = dict(N=self.N, M=self.M, grid=self.make_grid())
        if self.method == "MS":
            return MultipleShooting(intg=self.intg, **kw)
        if self.method == "SS":
            return SingleShooting(intg=self.intg, **kw)
        if self.method == "DC":
            # a method object is a function of its own arguments only: another collocation method of the same degree and
            # the OTHER scheme (and one of another degree) built earlier in the same process must not influence it
            other = "legendre" if self.scheme == "radau" else "radau"
            DirectCollocation(degree=self.degree, scheme=other, N=1)
            DirectCollocation(degree=self.degree + 1, scheme=self.scheme, N=1)
            return DirectCollocation(degree=self.degree, scheme=self.scheme, **kw)
        raise ValueError(self.method)

    def _scale(self, key, i, n):
        s = self.scales.get(key)
        if s is None:
            return 1
        if isinstance(s, (list, tuple)):
            s = s[i]
        if s == "unknown":
            # der_tag: a stage that re-declares its derivatives with scales of its own (divergent clone)
            return unknown("scale_%s%s%d" % (key, getattr(self, "der_tag", "") if key == "der" else "", i), n, 1, positive=True)
        return s

    def atom(self, a):
        """stage-symbol instantiation of an atom"""
        ocp, S = self.ocp, self.sym
        if isinstance(a, tuple) and a[0] == "off":
            return ocp.offset(self.atom(a[1]), a[2])
        if isinstance(a, tuple) and a[0] == "at":
            inner = self.atom(a[2])
            return ocp.at_t0(inner) if a[1] == "t0" else ocp.at_tf(inner)
        if a == "x": return (ocp.x if not self.hoc else ca.vertcat(*S["x"])) if S["x"] else None
        if a == "u": return (ocp.u if not self.hoc else ca.vertcat(*S["u"])) if S["u"] else None
        if a == "w": return ca.vertcat(*S["w"]) if S.get("w") else None
        if a == "z": return ocp.z if S["z"] else None
        if a == "xq": return ocp.xq
        if a == "t": return ocp.t
        if a == "T": return ocp.T
        if a == "t0": return ocp.t0
        if a == "DT": return ocp.DT
        if a == "DT_control": return ocp.DT_control
        tab = {"p": ("p", ""), "pc": ("p", "control"), "pcp": ("p", "control+"),
               "v": ("v", ""), "vc": ("v", "control"), "vcp": ("v", "control+")}
        if a in tab:
            lst = S[tab[a]]
            return ca.veccat(*lst) if lst else None
        raise ValueError(a)

    def build(self, parent=None, template=False):
        """declare the OCP (or a stage of `parent`, or a free-standing template stage) through rockit's public API"""
        from rockit import Ocp, FreeTime, Stage
        kw = {}
        self.T_value = self.t0_value = None
        for key, spec in (("T", self.T), ("t0", self.t0)):
            if spec[0] == "fixed":
                kw[key] = spec[1]
            elif spec[0] == "free":
                g = spec[1]
                if g == "unknown":          # ANY guess (for t0 also negative ones)
                    g = unknown("free_guess_" + key, positive=(key == "T"))
                    self.free_guess = dict(getattr(self, "free_guess", {}), **{key: g})
                kw[key] = FreeTime(g)
            elif spec[0] == "unknown":
                val = unknown("horizon_" + key, positive=(key == "T"))
                setattr(self, key + "_value", val)
                kw[key] = val
            elif spec[0] == "param":
                kw[key] = 1.0      # replaced below by a parameter
        if template:
            ocp = self.ocp = Stage(**kw)
        elif parent is not None:
            ocp = self.ocp = parent.stage(**kw)
        else:
            ocp = self.ocp = Ocp(**kw)
        S = self.sym
        if self.register and not self.fault:
            def declare(reg, key, sizes, **kw):
                syms = [ca.MX.sym("own_%s%d" % (key.replace("+", "plus"), i), *(n if isinstance(n, tuple) else (n,))) for i, n in enumerate(sizes)]
                if self.register == "list" and len(syms) > 1 and not self.scales.get(key):
                    reg(syms, **kw)
                else:
                    for i, (sy, n) in enumerate(zip(syms, sizes)):
                        reg(sy, **(dict(kw, scale=self._scale(key, i, n)) if key[0] != "p" else kw))
                return syms
            S["x"] = declare(ocp.register_state, "x", self.states)
            S["u"] = declare(ocp.register_control, "u", self.controls)
        else:
            S["x"] = [ocp.state(n, scale=self._scale("x", i, n)) for i, n in enumerate(self.states)]
            S["u"] = [ocp.control(n, scale=self._scale("u", i, n)) for i, n in enumerate(self.controls)]
        S["w"] = [ocp.control(n, order=k, scale=self._scale("w", j, n)) for j, (n, k) in enumerate(self.hoc)]
        if self.register and not self.fault:
            S["z"] = declare(ocp.register_algebraic, "z", self.algebraics)
        else:
            S["z"] = [ocp.algebraic(n, scale=self._scale("z", i, n)) for i, n in enumerate(self.algebraics)]
        for kind in ("", "control", "control+"):
            g, il = kind.rstrip("+"), kind.endswith("+")
            if self.register and not self.fault:
                S[("p", kind)] = declare(ocp.register_parameter, "p" + kind, self.params.get(kind, []), grid=g, include_last=il)
                S[("v", kind)] = declare(ocp.register_variable, "v" + kind, self.variables.get(kind, []), grid=g, include_last=il)
                continue
            S[("p", kind)] = [ocp.parameter(*(n if isinstance(n, tuple) else (n,)), grid=g, include_last=il) for n in self.params.get(kind, [])]
            S[("v", kind)] = [ocp.variable(n, grid=g, include_last=il, scale=self._scale("v" + kind, i, n))
                              for i, n in enumerate(self.variables.get(kind, []))]
        for key, spec in (("T", self.T), ("t0", self.t0)):
            if spec[0] == "param":
                p = ocp.parameter()
                S["p_" + key] = p
                (ocp.set_T if key == "T" else ocp.set_t0)(p)
        nx = sum(self.states)
        # dynamics
        if nx:
            rhs = E(self.ode.name, nx, self.ode.deps).on(self.atom)
            if self.fault and self.fault[0] == "DT-in-ode":
                rhs = rhs + ocp.DT                # FAULT: the integrator step length inside a continuous-time ODE
            if self.fault and self.fault[0] == "foreign-symbol-in-ode":
                rhs = rhs + ca.MX.sym("alien")    # FAULT: a symbol that does not belong to the OCP
            off = 0
            calls = []
            for i, (x, n) in enumerate(zip(S["x"], self.states)):
                if self.fault and self.fault[0] == "missing-der" and self.fault[1] % len(self.states) == i:
                    off += n
                    continue                      # FAULT: this state gets no derivative / update rule
                if self.discrete:
                    calls.append(lambda x=x, r_=rhs[off:off + n]: ocp.set_next(x, r_))
                else:
                    calls.append(lambda x=x, r_=rhs[off:off + n], sc=self._scale("der", i, n): ocp.set_der(x, r_, scale=sc))
                off += n
            if self.late.get("ode") and not self.fault:
                # history (C13 seen from C01/C02): the model is first declared with ANOTHER right-hand side, queried, and
                # only then given its final one -- re-assigning a derivative must reach the next transcription
                old = E(self.ode.name + "_old", nx, self.ode.deps).on(self.atom)
                off = 0
                for i, (x, n) in enumerate(zip(S["x"], self.states)):
                    (ocp.set_next(x, old[off:off + n]) if self.discrete else ocp.set_der(x, old[off:off + n], scale=self._scale("der", i, n)))
                    off += n
                self._redeclare_ode = list(reversed(calls)) if self.der_order == "reversed" else calls
            elif self.concat and len(S["x"]) > 1 and not self.fault and not self.scales.get("der"):
                order = list(reversed(range(len(S["x"]))))
                offs = [sum(self.states[:i]) for i in range(len(self.states))]
                lhs = ca.vertcat(*[S["x"][i] for i in order])
                val = ca.vertcat(*[rhs[offs[i]:offs[i] + self.states[i]] for i in order])
                (ocp.set_next if self.discrete else ocp.set_der)(lhs, val)
            else:
                for call in (reversed(calls) if self.der_order == "reversed" else calls):
                    call()            # the order of the set_der calls is not the order of the state declarations
        if self.alg is not None and self.algebraics:
            ocp.add_alg(E(self.alg.name, sum(self.algebraics), self.alg.deps).on(self.atom))
        # parameter values
        self.pvals = {}
        for kind in ("", "control", "control+"):
            for i, p in enumerate(S[("p", kind)]):
                cols = {"": 1, "control": self.N, "control+": self.N + 1}[kind]
                val = unknown("pval_%s%d" % (kind.replace("+", "plus"), i), p.shape[0], p.shape[1] * cols)
                self.pvals[(kind, i)] = val
                self._n_par = getattr(self, "_n_par", 0) + 1
                if self.fault and self.fault[0] == "missing-pval" and self.fault[1] % max(1, self.n_params()) == self._n_par - 1:
                    continue                      # FAULT: this parameter never gets a value
                ocp.set_value(p, val)
        for key in ("T", "t0"):
            if "p_" + key in S:
                val = unknown("pval_" + key, positive=(key == "T"))
                self.pvals[key] = val
                ocp.set_value(S["p_" + key], val)
        if self.concat and not self.fault:
            self._concat_values("pvalc_")
        self._late_ops = []
        if getattr(self, "_redeclare_ode", None):
            self._late_ops.append(lambda: [call() for call in self._redeclare_ode])
        # constraints
        n_early_c = len(self.constraints) - min(len(self.constraints), self.late.get("constraints", 0))
        for ci, c in enumerate(self.constraints):
            e = c.expr.on(self.atom)
            kw = {}
            if c.grid is not None:
                kw["grid"] = c.grid
            sc = c.scale
            if sc == "unknown":
                sc = unknown("scale_c_" + c.expr.name, positive=True)
                c.scale_value = sc
            else:
                c.scale_value = sc
            decl = lambda c=c, e=e, sc=sc, kw=kw: ocp.subject_to(c.relation(e, self.atom), include_first=c.include_first, include_last=c.include_last, scale=sc, **kw)
            decl() if ci < n_early_c else self._late_ops.append(decl)
        # objective
        n_early_o = len(self.objective) - min(len(self.objective), self.late.get("objective", 0))
        for oi, term in enumerate(self.objective):
            kind, ex = term[0], term[1]
            opts = term[2] if len(term) > 2 else {}
            e = ex.on(self.atom)
            if kind == "at_t0":
                decl = lambda e=e: ocp.add_objective(ocp.at_t0(e))
            elif kind == "at_tf":
                decl = lambda e=e: ocp.add_objective(ocp.at_tf(e))
            elif kind == "sum":
                decl = lambda e=e, opts=opts: ocp.add_objective(ocp.sum(e, **opts))
            elif kind == "integral":
                decl = lambda e=e, opts=opts: ocp.add_objective(ocp.integral(e, **opts))
            elif kind == "value":
                decl = lambda e=e: ocp.add_objective(e)
            else:
                raise ValueError(kind)
            decl() if oi < n_early_o else self._late_ops.append(decl)
        if self.fault:
            kind_, pos_ = self.fault
            X0 = S["x"][pos_ % len(S["x"])]
            if kind_ == "unknown-grid":
                # at every kind of subject_to position: path, boundary (t0 / tf), and -- if there are any -- global variables
                forms = [lambda: X0 <= 1, lambda: ocp.at_t0(X0) == 0, lambda: ocp.at_tf(X0) <= 2]
                if S[("v", "")]:
                    forms.append(lambda: S[("v", "")][0] <= 3)
                ocp.subject_to(forms[pos_ % len(forms)](), grid="nonsense")
            elif kind_ == "foreign-symbol-in-constraint":
                ocp.subject_to(X0 + ca.MX.sym("alien", X0.shape[0]) <= 1)
            elif kind_ == "foreign-symbol-in-objective":
                ocp.add_objective(ocp.at_tf(X0[0]) * ca.MX.sym("alien"))
            elif kind_ == "signal-objective":
                ocp.add_objective(X0[0])
            elif kind_ == "vector-objective":
                ocp.add_objective(ocp.at_tf(ca.vertcat(X0[0], X0[0])))
            elif kind_ == "set_value-on-state":
                ocp.set_value(X0, 1)
            elif kind_ == "set_value-on-variable":
                vs = [q for k_ in ("", "control", "control+") for q in S[("v", k_)]]
                ocp.set_value(vs[pos_ % len(vs)], 1)
            elif kind_ == "set_initial-on-parameter":
                ps = [q for k_ in ("", "control", "control+") for q in S[("p", k_)]]
                ocp.set_initial(ps[pos_ % len(ps)], 1)
            elif kind_ == "set_initial-on-unknown":
                ocp.set_initial(ca.MX.sym("alien"), 1)
            elif kind_ == "constant-false":
                ocp.subject_to(ocp.at_t0(ocp.t) - self._t0_number() <= -1) if self._t0_number() is not None else ocp.subject_to(ca.MX(2) <= 1)
            elif kind_ == "parameter-only-constraint":
                ps = [q for k_ in ("",) for q in S[("p", k_)]]
                ocp.subject_to(ps[pos_ % len(ps)][0] <= 0)
            elif kind_ == "roots-with-shooting":
                ocp.subject_to(X0 <= 1, grid="integrator_roots")
            elif kind_ == "der-of-control":
                ocp.subject_to(ocp.der(S["u"][pos_ % len(S["u"])]) <= 1)
        if self.late.get("pvals"):
            def new_values():
                for kind in ("", "control", "control+"):
                    for i, p in enumerate(S[("p", kind)]):
                        cols = {"": 1, "control": self.N, "control+": self.N + 1}[kind]
                        val = unknown("pval2_%s%d" % (kind.replace("+", "plus"), i), p.shape[0], p.shape[1] * cols)
                        self.pvals[(kind, i)] = val
                        ocp.set_value(p, val)
            self._late_ops.append(new_values)
        if self.late.get("pvals") and self.concat:
            self._late_ops.append(lambda: self._concat_values("pvalc2_"))
        if self.late.get("method"):
            self._late_ops.append(lambda: ocp.method(self.make_method()))
        # initial guesses
        self.initial_realised = []
        self._late = []
        n_early = len(self.initial) - (len(self.initial) if self.initial_after == "all" else self.initial_after)
        for i, (tgt, val) in enumerate(self.initial):
            v = self.initial_value(val)
            self.initial_realised.append((tgt, val if isinstance(val, E) else v))
            if i < n_early:
                ocp.set_initial(self.initial_target(tgt), v)
            else:
                self._late.append((self.initial_target(tgt), v))
        if self.solver and parent is None and not template:
            ocp.solver(self.solver)
        ocp.method(self.make_method())
        return ocp

    def _concat_values(self, prefix):
        """new values for ALL column-shaped global parameters in one call, through a concatenation in reversed order"""
        ps = [(i, p) for i, p in enumerate(self.sym[("p", "")]) if p.shape[1] == 1]
        if len(ps) < 2:
            return
        ps = list(reversed(ps))
        vals = []
        for i, p in ps:
            v = unknown("%s%d" % (prefix, i), p.shape[0], 1)
            self.pvals[("", i)] = v
            vals.append(v)
        self.ocp.set_value(ca.vertcat(*[p for _, p in ps]), ca.vertcat(*vals))

    # ---- effective layout with higher-order controls: rockit declares, per control(order=k), k helper STATES (the returned
    # symbol first) and one helper CONTROL, all behind the user's own states / controls, all with the control's scale
    def state_blocks(self):
        """[(scale key, index, size)] of the full state vector"""
        out = [("x", i, n) for i, n in enumerate(self.states)]
        for j, (n, k) in enumerate(self.hoc):
            out += [("w", j, n)] * k
        return out

    def control_blocks(self):
        return [("u", i, n) for i, n in enumerate(self.controls)] + [("w", j, n) for j, (n, k) in enumerate(self.hoc)]

    def view(self):
        if not self.hoc:
            return None
        nxu, nuu = sum(self.states), sum(self.controls)
        rows, off = [], nxu
        for n, k in self.hoc:
            rows += list(range(off, off + n))
            off += n * k
        return dict(x=list(range(nxu)), u=list(range(nuu)), w=rows)

    def n_params(self):
        return sum(len(self.params.get(k, [])) for k in ("", "control", "control+"))

    def _t0_number(self):
        return self.t0[1] if self.t0[0] == "fixed" else None

    def bound_to(self, stage, **over):
        """the same specification seen through another stage object (a clone of the template)"""
        import copy
        c = copy.copy(self)
        c.ocp = stage
        for k, v in over.items():
            setattr(c, k, v)
        return c

    def initial_target(self, tgt):
        S = self.sym
        if isinstance(tgt, tuple):
            cat, i = tgt
            return S[cat][i]
        return {"T": self.ocp.T, "t0": self.ocp.t0}[tgt]

    def initial_value(self, val):
        if isinstance(val, E):
            return val.on(self.atom)
        if isinstance(val, tuple) and val[0] == "unknown":
            return unknown(*val[1:])
        return val

    # ------------------------------------------------------------------------------------
    def transcribe(self):
        """transcribe and return the method object of the transcribed copy"""
        self.ocp._transcribe() if False else self.ocp._transcribed
        ops = list(getattr(self, "_late_ops", []))
        self._late_ops = []
        for n_, op in enumerate(ops):
            op()                                  # declared after the first transcription: must reach the next one
            if self.late.get("query") and n_ == 0:
                self.ocp._transcribed
        if ops:
            self.ocp._transcribed
        for tgt, v in getattr(self, "_late", []):
            self.ocp.set_initial(tgt, v)         # guesses given after the first transcription (no re-transcription: the flag stays set)
        self._late = []
        aug = self.ocp._augmented
        self.aug = aug
        self.meth = aug._method
        self.opti = aug._method.opti
        return self.meth


def own_horizon_kw(m, Tk, t0k):
    return dict(method=m, N=2, M=2, degree=2, T=Tk, t0=t0k, params={"": [1]}, ode=E("f", None, ("x", "u", "t", "p")),
                constraints=[Con(E("ct", 1, ("x", "T", "t0", "t")), "le", 1.0), Con(E("cb", 1, (("at", "tf", "x"), "T", "t0")), "le", 2.0)],
                objective=[("at_tf", E("Mf", 1, ("x", "T", "t"))), ("value", E("VT", 1, ("T", "t0", "p")))])


def build_clones(kw, divergent=False):
    """a specification declared ONCE as a free-standing template stage and instantiated twice in one master OCP, every clone
    with parameter values of its own.  divergent: AFTER cloning the second stage gets dynamics of its own (own derivative
    scales), one more constraint, one more objective term and one more guess.
    Returns (master, template specification, [specification of clone 0, specification of clone 1])"""
    from rockit import Ocp
    tmpl = Spec(**kw)
    tmpl.build(template=True)
    master = Ocp()
    c0, c1 = master.stage(tmpl.ocp), master.stage(tmpl.ocp)
    b0 = tmpl.bound_to(c0)
    b1 = tmpl.bound_to(c1)
    if divergent:
        nx = sum(tmpl.states)
        extra_c = Con(E("cx_own", 1, ("x", "u") if tmpl.controls else ("x",)), "le", 1.0)
        extra_c.scale_value = 1
        extra_o = ("at_tf", E("Mx_own", 1, ("x", "T")))
        b1 = tmpl.bound_to(c1, ode=E(tmpl.ode.name + "_own", tmpl.ode.nout, tmpl.ode.deps), der_tag="_own", scales=dict(tmpl.scales, der="unknown"),
                           constraints=list(tmpl.constraints) + [extra_c], objective=list(tmpl.objective) + [extra_o])
        rhs = E(b1.ode.name, nx, b1.ode.deps).on(b1.atom)
        off = 0
        for i, (x, n) in enumerate(zip(tmpl.sym["x"], tmpl.states)):
            (c1.set_next(x, rhs[off:off + n]) if tmpl.discrete else c1.set_der(x, rhs[off:off + n], scale=b1._scale("der", i, n)))
            off += n
        c1.subject_to(extra_c.relation(extra_c.expr.on(b1.atom)))
        c1.add_objective(c1.at_tf(extra_o[1].on(b1.atom)))
        g_own = unknown("guess_own", tmpl.states[0], 1)
        c1.set_initial(tmpl.sym["x"][0], g_own)
        b1.initial_realised = list(tmpl.initial_realised) + [(("x", 0), g_own)]
    for j, (cl, b) in enumerate(((c0, b0), (c1, b1))):
        pv = {}
        for kind in ("", "control", "control+"):
            for q, psym in enumerate(tmpl.sym[("p", kind)]):
                cols = {"": 1, "control": tmpl.N, "control+": tmpl.N + 1}[kind]
                val = unknown("clone%d_pval_%s%d" % (j, kind.replace("+", "plus"), q), psym.shape[0], psym.shape[1] * cols)
                cl.set_value(psym, val)
                pv[(kind, q)] = val
        for key in ("T", "t0"):
            if "p_" + key in tmpl.sym:
                val = unknown("clone%d_pval_%s" % (j, key), positive=(key == "T"))
                cl.set_value(tmpl.sym["p_" + key], val)
                pv[key] = val
        b.pvals = pv
    return master, tmpl, [b0, b1]
