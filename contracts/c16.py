"""
C16: der() is the total time derivative along the declared dynamics.

Obligations on the real Stage.der / Stage.control / AbstractSignal.der executed on the casadi model
(user functions uninterpreted, so the chain rule is checked for EVERY expression of that shape;
state dimensions are concrete):
    der(e) == sum_i dE/dx_i * f_i  +  dE/dt  (+ sum_s dE/ds * der(s) for b-spline signals)
on every branch of der (time-dependent / time-independent / the expression is a state itself),
raises when e depends on a control, control(order=k) builds a chain of k derivatives ending in the
piecewise-constant decision, and asking one derivative too many raises.
"""
import z3
import casadi as ca

from vc.core import ctx
from vc.runner import Task
from . import nlp
from .backend import ufun, unknown


from .backend import upartials as _partials


def der_cases(nx, time_dep_ode):
    from rockit import Ocp
    c = ctx()
    ocp = Ocp(T=unknown("T", positive=True))
    xs = [ocp.state() for _ in range(nx)]
    u = ocp.control()
    p = ocp.parameter()
    v = ocp.variable()
    x = ca.vertcat(*xs)
    deps = [x, u, p, v] + ([ocp.t] if time_dep_ode else [])
    f = ufun("f", nx, deps)
    for i, xi in enumerate(xs):
        ocp.set_der(xi, f[i])
    tag = "nx=%d,%s" % (nx, "time-varying ode" if time_dep_ode else "autonomous ode")
    base = "stage:Stage.der:ensures"
    # 1. arbitrary expression of states, parameters (no explicit time)
    e = ufun("e", 2, [x, p])
    D = _partials("e", 2, [x, p])
    want = ca.vcat([sum((D[o][i] * f[i] for i in range(nx)), ca.MX(0.0)) for o in range(2)])
    nlp.prove_equal("%s:time-independent-expression[%s]" % (base, tag), ocp.der(e), want)
    # 2. expression that depends on time explicitly
    g = ufun("g", 1, [x, ocp.t, p])
    Dg = _partials("g", 1, [x, ocp.t, p])
    want = sum((Dg[0][i] * f[i] for i in range(nx)), ca.MX(0.0)) + Dg[0][nx]
    nlp.prove_equal("%s:time-dependent-expression[%s]" % (base, tag), ocp.der(g), want)
    # 3. polynomial expression: product rule, d/dt of t
    h = xs[0] * xs[-1] + ocp.t * xs[0] + p * ocp.t * ocp.t
    want = f[0] * xs[-1] + xs[0] * f[nx - 1] + xs[0] + ocp.t * f[0] + 2 * p * ocp.t
    nlp.prove_equal("%s:product-rule[%s]" % (base, tag), ocp.der(h), want)
    # 4. a state itself
    for i in range(nx):
        nlp.prove_equal("%s:state-%d[%s]" % (base, i, tag), ocp.der(xs[i]), f[i])
    # 5. dependence on a control is rejected
    try:
        ocp.der(ufun("q", 1, [x, u]))
        c.fail("stage:Stage.der:raises:depends-on-control[%s]" % tag, "no exception")
    except Exception as ex:
        c.ok("stage:Stage.der:raises:depends-on-control[%s]" % tag, detail=str(ex)[:80], backend="z3")


def control_chain(order):
    from rockit import Ocp
    c = ctx()
    ocp = Ocp(T=1.0)
    x = ocp.state()
    u = ocp.control(order=order)
    ocp.set_der(x, u)
    base = "stage:Stage.control:ensures"
    # walking down the chain: each der is a declared symbol, the last one the piecewise constant decision
    cur = u
    for k in range(order):
        (c.ok if any(ca.is_equal(cur, s) for s in ocp.states) else lambda n_, **kw: c.fail(n_, "link %d is not a state" % k))("%s:link-%d-is-a-state[order=%d]" % (base, k, order), backend="z3")
        cur = ocp.der(cur)
    (c.ok if any(ca.is_equal(cur, s) for s in ocp.controls) else lambda n_, **kw: c.fail(n_, "chain does not end in a control"))("%s:chain-ends-in-the-decision[order=%d]" % (base, order), backend="z3")
    c.prove("%s:number-of-helper-states[order=%d]" % (base, order), len(ocp.states) == 1 + order and len(ocp.controls) == 1)
    try:
        ocp.der(cur)
        c.fail("stage:Stage.der:raises:derivative-that-does-not-exist[order=%d]" % order, "no exception when differentiating the piecewise-constant decision")
    except Exception as ex:
        c.ok("stage:Stage.der:raises:derivative-that-does-not-exist[order=%d]" % order, detail=str(ex)[:80], backend="z3")


def signal_der():
    from rockit import Ocp
    c = ctx()
    ocp = Ocp(T=1.0)
    x = ocp.state()
    u = ocp.control()
    ocp.set_der(x, ufun("f", 1, [x, u]))
    s = ocp.variable(grid="bspline", order=2)
    e = ufun("e", 1, [x, s])
    D = _partials("e", 1, [x, s])
    d = ocp.der(e)
    ds = ocp.der(s)
    want = D[0][0] * ufun("f", 1, [x, u]) + D[0][1] * ds
    nlp.prove_equal("stage:Stage.der:ensures:b-spline-signal-term", d, want)
    # signal AND explicit time in the same expression: the partial derivative in time must not be lost
    e2 = ufun("e2", 1, [x, s, ocp.t])
    D2 = _partials("e2", 1, [x, s, ocp.t])
    want2 = D2[0][0] * ufun("f", 1, [x, u]) + D2[0][1] * ds + D2[0][2]
    nlp.prove_equal("stage:Stage.der:ensures:b-spline-signal-and-time", ocp.der(e2), want2)
    # the derivative of a signal is itself a signal of one order less: der(der(s)) is a symbol again, one derivative
    # more than the order raises; mixed expressions keep the second-derivative term
    name2 = "stage:Stage.der:ensures:second-derivative-of-a-signal-is-a-signal"
    try:
        d2 = ocp.der(ds)
    except Exception as ex:
        c.fail(name2, "der(der(s)) raises %s: %s" % (type(ex).__name__, str(ex)[:100]))
        return
    d2m = ca.MX(d2)
    if d2m.shape == (1, 1) and d2m.is_symbolic() and not ca.is_equal(d2, ds) and not ca.is_equal(d2, s):
        c.ok(name2, backend="z3")
        e3 = ufun("e3", 1, [x, ds])
        D3 = _partials("e3", 1, [x, ds])
        nlp.prove_equal("stage:Stage.der:ensures:expression-of-a-derivative-signal", ocp.der(e3), D3[0][0] * ufun("f", 1, [x, u]) + D3[0][1] * d2)
    else:
        c.fail(name2, "der(der(s)) is %s instead of a new signal symbol" % str(d2m)[:60])
    try:
        ocp.der(d2)
        c.fail("stage:AbstractSignal.der:raises:order-exhausted", "third derivative of an order-2 signal did not raise")
    except Exception as ex:
        c.ok("stage:AbstractSignal.der:raises:order-exhausted", detail=str(ex)[:80], backend="z3")
    (c.ok if ca.is_equal(ocp.der(s), ds) else lambda n_, **k: c.fail(n_, "second call returned another symbol"))("stage:AbstractSignal.der:ensures:derivative-symbol-created-once", backend="z3")


def tasks(tier):
    out = []
    for nx in ((1, 2, 3) if tier == "thorough" else (1, 3)):
        for td in (False, True):
            out.append(Task("C16/der[nx=%d,%s]" % (nx, "t" if td else "autonomous"), lambda nx=nx, td=td: der_cases(nx, td), kind="bounded", replay=dict(harness="der_probe", nx=nx, td=td),
                            bound=dict(nx=nx, expressions="uninterpreted e(x,p), g(x,t,p), polynomial, states", ode="uninterpreted")))
    for order in (1, 2, 3):
        out.append(Task("C16/control-chain[order=%d]" % order, lambda order=order: control_chain(order), kind="bounded", bound=dict(order=order),
                        replay=dict(harness="task_probe", module="contracts.c16", task="C16/control-chain[order=%d]" % order, tier=tier)))
    # der() of a b-spline signal, and of that derivative, ...: the analytic derivative in PHYSICAL time along the whole chain
    from . import c17
    for d in (2, 3):
        for N, kname in ((2, "uniform"), (3, "geometric")):
            inst = "C16/signal-derivative-chain[d=%d,N=%d,%s]" % (d, N, kname)
            out.append(Task(inst, c17.guarded(lambda d=d, N=N, kname=kname: c17.signal_derivative_chain(d, N, kname), inst), kind="bounded", bound=dict(order=d, N=N, knots=kname, T="symbolic"),
                            replay=dict(harness="task_probe", module="contracts.c16", task=inst, tier=tier)))
    out += c17.sequence_tasks(tier, "C16")
    # der(der(s)) of a b-spline signal evaluated THROUGH the transcription (samples on the control grid)
    for meth in ("MS", "DC"):
        for d in (2, 3):
            inst = "C16/signal-chain-through-transcription[%s,d=%d]" % (meth, d)
            out.append(Task(inst, c17.guarded(lambda meth=meth, d=d: c17.signal_pipeline(meth, d, 3, 2, "geometric"), inst), kind="bounded", bound=dict(method=meth, order=d, N=3, M=2, grid="geometric")))
    out.append(Task("C16/signal", signal_der, kind="bounded", bound=dict(signal_order=2), replay=dict(harness="task_probe", module="contracts.c16", task="C16/signal", tier=tier)))
    return out
