"""Catalogue of histories for C13 (back-end agnostic: runs on the casadi model and on real CasADi)."""
import casadi as ca
from .backend import ufun, unknown


def _base(method="MS", T=1.0, N=2, pval=None, solver="ipopt", extra=None, free=False, cons=True):
    from rockit import Ocp, MultipleShooting, SingleShooting, DirectCollocation, FreeTime
    ocp = Ocp(T=FreeTime(T) if free else T)
    x = ocp.state(2)
    u = ocp.control()
    p = ocp.parameter()
    v = ocp.variable()
    ocp.set_der(x, ufun("f", 2, [x, u, ocp.t, p, v]))
    if cons:
        ocp.subject_to(ocp.at_t0(x) == 0)
        ocp.subject_to(ufun("c", 1, [x, u]) <= 1)
    ocp.add_objective(ocp.at_tf(ufun("m", 1, [x])))
    ocp.add_objective(ocp.integral(ufun("l", 1, [x, u])))
    if pval is not None:
        ocp.set_value(p, pval)
    if solver:
        ocp.solver(solver)
    M = dict(MS=MultipleShooting, SS=SingleShooting, DC=DirectCollocation)[method]
    ocp.method(M(N=N, M=1) if method != "DC" else M(N=N, M=1, degree=2))
    return ocp, dict(x=x, u=u, p=p, v=v)


def histories():
    """name -> function(method) returning (ocp after the history, freshly written ocp with the final specification)"""
    H = {}
    pv = lambda: unknown("pv", 1, 1)
    pv2 = lambda: unknown("pv2", 1, 1)

    def query_twice(m):
        a, s = _base(m, pval=pv()); a._transcribed; o1 = a._augmented._method.opti; a._transcribed; a.sample(s["x"], grid="control")
        assert a._augmented._method.opti is o1
        b, _ = _base(m, pval=pv())
        return a, b
    H["query-twice"] = query_twice

    def set_T_after(m):
        a, s = _base(m, T=1.0, pval=pv()); a._transcribed; a.set_T(2.0)
        b, _ = _base(m, T=2.0, pval=pv())
        return a, b
    H["set_T-after-transcription"] = set_T_after

    def set_t0_after(m):
        a, s = _base(m, pval=pv()); a._transcribed; a.set_t0(0.5)
        b, _ = _base(m, pval=pv()); b.set_t0(0.5)
        return a, b
    H["set_t0-after-transcription"] = set_t0_after

    def constraint_after(m):
        a, s = _base(m, pval=pv()); a._transcribed; a.subject_to(ufun("c2", 1, [s["x"]]) >= 0)
        b, t = _base(m, pval=pv()); b.subject_to(ufun("c2", 1, [t["x"]]) >= 0)
        return a, b
    H["subject_to-after-transcription"] = constraint_after

    def objective_after(m):
        a, s = _base(m, pval=pv()); a._transcribed; a.add_objective(a.at_t0(ufun("m0", 1, [s["x"]])))
        b, t = _base(m, pval=pv()); b.add_objective(b.at_t0(ufun("m0", 1, [t["x"]])))
        return a, b
    H["add_objective-after-transcription"] = objective_after

    def value_after_then_method(m):
        from rockit import MultipleShooting
        a, s = _base(m, pval=pv()); a._transcribed; a.set_value(s["p"], pv2()); a.method(MultipleShooting(N=3))
        b, t = _base(m, pval=pv2()); b.method(MultipleShooting(N=3))
        return a, b
    H["set_value-after-transcription-then-method"] = value_after_then_method

    def value_after(m):
        a, s = _base(m, pval=pv()); a._transcribed; a.set_value(s["p"], pv2())
        b, t = _base(m, pval=pv2())
        return a, b
    H["set_value-after-transcription"] = value_after

    def concat_value_after_then(op):
        """values of TWO parameters given through one concatenation after the first transcription, then something that
        forces a re-transcription: the values must survive it"""
        def f(m):
            from rockit import MultipleShooting
            def two(vals):
                o, s = _base(m, pval=pv())
                q = o.parameter(2)
                o.subject_to(ufun("cq", 1, [s["x"], q]) <= 2)
                if vals is not None:
                    o.set_value(ca.vertcat(q, s["p"]), vals)
                else:
                    o.set_value(q, unknown("qv", 2, 1))
                return o, s, q
            a, s, q = two(None)
            a._transcribed
            a.set_value(ca.vertcat(q, s["p"]), ca.vertcat(unknown("qv2", 2, 1), pv2()))
            b, t, q2 = two(ca.vertcat(unknown("qv2", 2, 1), pv2()))
            for o, sy in ((a, s), (b, t)):
                if op == "subject_to":
                    o.subject_to(ufun("c9", 1, [sy["x"]]) <= 3)
                elif op == "method":
                    o.method(MultipleShooting(N=3))
                elif op == "add_objective":
                    o.add_objective(o.at_tf(ufun("m9", 1, [sy["x"]])))
            return a, b
        return f
    for op in ("nothing", "subject_to", "method", "add_objective"):
        H["set_value-of-a-concatenation-after-transcription-then-%s" % op] = concat_value_after_then(op)

    def alg_guess_survives(op):
        """a guess for an ALGEBRAIC variable, a transcription, a guess for something else on the transcribed problem, then a
        re-transcription: the algebraic guess is still part of the specification"""
        def f(m):
            from rockit import Ocp, MultipleShooting, SingleShooting, DirectCollocation
            def build(extra):
                o = Ocp(T=1.0)
                x = o.state(); z = o.algebraic(); u = o.control()
                o.set_der(x, ufun("fd", 1, [x, z, u]))
                o.add_alg(ufun("ga", 1, [x, z, u]))
                o.subject_to(o.at_t0(x) == 0)
                o.add_objective(o.at_tf(ufun("md", 1, [x])))
                o.set_initial(z, unknown("gz", 1, 1))
                o.solver("ipopt")
                Mth = dict(MS=MultipleShooting, SS=SingleShooting, DC=DirectCollocation)[m]
                o.method(Mth(N=2, M=1, intg="idas") if m != "DC" else Mth(N=2, M=1, degree=2))
                if extra:
                    o.set_initial(u, unknown("gu", 1, 1))
                return o, dict(x=x, z=z, u=u)
            a, s = build(False)
            a._transcribed
            a.set_initial(s["u"], unknown("gu", 1, 1))
            b, t = build(True)
            for o, sy in ((a, s), (b, t)):
                if op == "subject_to":
                    o.subject_to(ufun("c9", 1, [sy["x"]]) <= 3)
                elif op == "add_objective":
                    o.add_objective(o.at_tf(ufun("m9", 1, [sy["x"]])))
            return a, b
        return f
    for op in ("subject_to", "add_objective"):
        H["algebraic-guess-then-another-guess-after-transcription-then-%s" % op] = alg_guess_survives(op)

    def solver_after(m):
        a, s = _base(m, pval=pv()); a._transcribed; a.solver("sqpmethod", {"qpsol": "qrqp"})
        b, t = _base(m, pval=pv(), solver=None); b.solver("sqpmethod", {"qpsol": "qrqp"})
        return a, b
    H["solver-after-transcription"] = solver_after

    def solver_twice(after):
        def f(m):
            # the last solver() call alone decides the settings: an option given only in an EARLIER call is gone
            a, s = _base(m, pval=pv(), solver=None); a.solver("ipopt", {"ipopt.max_iter": 1, "ipopt.tol": 1e-4})
            if after:
                a._transcribed
            a.solver("ipopt", {"ipopt.tol": 1e-6})
            b, t = _base(m, pval=pv(), solver=None); b.solver("ipopt", {"ipopt.tol": 1e-6})
            return a, b
        return f
    H["solver-called-twice-second-call-drops-an-option"] = solver_twice(False)
    H["solver-called-twice-with-a-query-in-between"] = solver_twice(True)

    def solver_then_method(m):
        a, s = _base(m, pval=pv(), solver=None); a.solver("ipopt", {"ipopt.max_iter": 1}); a._transcribed
        from rockit import MultipleShooting
        a.method(MultipleShooting(N=2, M=1)); a.solver("ipopt", {})
        b, t = _base(m, pval=pv(), solver=None); b.method(MultipleShooting(N=2, M=1)); b.solver("ipopt", {})
        return a, b
    H["solver-options-dropped-after-a-method-change"] = solver_then_method

    def initial_after(m):
        a, s = _base(m, pval=pv()); a._transcribed; a.set_initial(s["x"], unknown("gx", 2, 1)); a.set_initial(s["u"], a.t * 2)
        b, t = _base(m, pval=pv()); b.set_initial(t["x"], unknown("gx", 2, 1)); b.set_initial(t["u"], b.t * 2)
        return a, b
    H["set_initial-after-transcription"] = initial_after

    def initial_dependent(m):
        # a guess that depends on another guess, the latter changed after a query
        a, s = _base(m, T=1.0, free=True, pval=pv()); a.set_initial(s["x"], ca.vertcat(a.t, 2 * a.t)); a._transcribed; a.set_initial(a.T, 4.0)
        b, t = _base(m, T=1.0, free=True, pval=pv()); b.set_initial(t["x"], ca.vertcat(b.t, 2 * b.t)); b.set_initial(b.T, 4.0)
        return a, b
    H["dependent-guess-changed-after-query"] = initial_dependent

    def initial_dependent_var(m):
        a, s = _base(m, pval=pv()); a.set_initial(s["u"], s["v"] * a.t); a._transcribed; a.set_initial(s["v"], 3.0)
        b, t = _base(m, pval=pv()); b.set_initial(t["u"], t["v"] * b.t); b.set_initial(t["v"], 3.0)
        return a, b
    H["guess-depending-on-variable-guess-changed-after-query"] = initial_dependent_var

    def clear_then_new(m):
        a, s = _base(m, pval=pv()); a._transcribed; a.clear_constraints(); a.subject_to(a.at_t0(s["x"]) == 1)
        b, t = _base(m, pval=pv()); b.clear_constraints(); b.subject_to(b.at_t0(t["x"]) == 1)
        return a, b
    H["clear_constraints-after-transcription"] = clear_then_new

    def clear_every_grid(m):
        # constraints on every grid the method can place, then cleared: the final specification has none of them
        def declare(o, s):
            o.subject_to(ufun("ci", 1, [s["x"], s["u"]]) <= 2, grid="integrator")
            o.subject_to(ufun("cc", 1, [s["x"]]) <= 3, grid="control", include_first=False)
            o.subject_to(o.at_tf(ufun("cf", 1, [s["x"]])) <= 4)
            if m == "DC":
                o.subject_to(ufun("cr", 1, [s["x"], s["u"]]) <= 5, grid="integrator_roots")
        a, s = _base(m, pval=pv()); declare(a, s); a.clear_constraints(); a.subject_to(a.at_t0(s["x"]) == 1)
        b, t = _base(m, pval=pv(), cons=False); b.subject_to(b.at_t0(t["x"]) == 1)
        return a, b
    H["clear_constraints-removes-constraints-of-every-grid"] = clear_every_grid

    def clear_every_grid_after(m):
        def declare(o, s):
            o.subject_to(ufun("ci", 1, [s["x"], s["u"]]) <= 2, grid="integrator")
            if m == "DC":
                o.subject_to(ufun("cr", 1, [s["x"], s["u"]]) <= 5, grid="integrator_roots")
        a, s = _base(m, pval=pv()); declare(a, s); a._transcribed; a.clear_constraints(); a.subject_to(ufun("c", 1, [s["x"], s["u"]]) <= 1)
        b, t = _base(m, pval=pv(), cons=False); b.subject_to(ufun("c", 1, [t["x"], t["u"]]) <= 1)
        return a, b
    H["clear_constraints-of-every-grid-after-transcription"] = clear_every_grid_after

    def method_twice(m):
        from rockit import SingleShooting
        a, s = _base(m, pval=pv()); a._transcribed; a.method(SingleShooting(N=3, M=2)); a._transcribed
        b, t = _base(m, pval=pv()); b.method(SingleShooting(N=3, M=2))
        return a, b
    H["method-changed-after-transcription"] = method_twice

    def new_state_after(m):
        a, s = _base(m, pval=pv()); a._transcribed
        y = a.state(); a.set_der(y, ufun("g", 1, [y, s["u"]]))
        b, t = _base(m, pval=pv())
        y2 = b.state(); b.set_der(y2, ufun("g", 1, [y2, t["u"]]))
        return a, b
    H["state-added-after-transcription"] = new_state_after

    # ---- multi-stage: changes made on a SUB-STAGE after a query must reach the next transcription as well -----
    def _two(m):
        from rockit import Ocp, MultipleShooting, SingleShooting, DirectCollocation
        M = dict(MS=MultipleShooting, SS=SingleShooting, DC=DirectCollocation)[m]
        ocp = Ocp()
        parts = []
        for i in range(2):
            s = ocp.stage(t0=float(i), T=1.0)
            x = s.state(); u = s.control()
            s.set_der(x, ufun("f%d" % i, 1, [x, u]))
            s.subject_to(ufun("c%d" % i, 1, [x, u]) <= 1)
            s.add_objective(s.integral(ufun("l%d" % i, 1, [x, u])))
            s.method(M(N=2, M=1) if m != "DC" else M(N=2, M=1, degree=2))
            parts.append((s, x, u))
        ocp.subject_to(parts[0][0].at_tf(parts[0][1]) == parts[1][0].at_t0(parts[1][1]))
        ocp.solver("ipopt")
        return ocp, parts

    def sub_constraint_after(m):
        a, pa = _two(m); a._transcribed; pa[1][0].subject_to(ufun("extra", 1, [pa[1][2]]) <= 0.6)
        b, pb = _two(m); pb[1][0].subject_to(ufun("extra", 1, [pb[1][2]]) <= 0.6)
        return a, b
    H["substage-subject_to-after-transcription"] = sub_constraint_after

    def sub_objective_after(m):
        a, pa = _two(m); a._transcribed; pa[0][0].add_objective(pa[0][0].at_tf(ufun("mm", 1, [pa[0][1]])))
        b, pb = _two(m); pb[0][0].add_objective(pb[0][0].at_tf(ufun("mm", 1, [pb[0][1]])))
        return a, b
    H["substage-add_objective-after-transcription"] = sub_objective_after

    def sub_method_after(m):
        from rockit import MultipleShooting
        a, pa = _two(m); a._transcribed; pa[1][0].method(MultipleShooting(N=3))
        b, pb = _two(m); pb[1][0].method(MultipleShooting(N=3))
        return a, b
    H["substage-method-after-transcription"] = sub_method_after

    def sub_set_T_after(m):
        a, pa = _two(m); a._transcribed; pa[1][0].set_T(2.0)
        b, pb = _two(m); pb[1][0].set_T(2.0)
        return a, b
    H["substage-set_T-after-transcription"] = sub_set_T_after
    return H


