"""Per-property meta data for the evidence files."""
import ast
import hashlib
import os

A_CASADI = "A-CASADI: model/casadi describes CasADi 3.8.1 (validated on samples by replay/dep_contracts.py, not proved)"
A_OPTI = "A-OPTI: casadi.Opti hands the recorded constraints/objective/initial/parameter values to the solver as recorded; canon_expr(c) is equivalent to c; set_initial(scale*v, g) stores g/scale"
A_FLOAT = "A-FLOAT: IEEE doubles treated as exact reals (decimal repr of each float constant taken as a rational)"
A_PY = "A-PY: CPython executes the function bodies; ints are mathematical; no monkey patching other than the casadi model"
A_TERM = "A-TERM: termination of while-loops not proved"
A_INTG = "A-INTG: casadi.integrator returns the exact flow of the DAE it is given (opaque in the model)"
A_MATH_RK = "A-MATH-RK: order conditions imply classical convergence order (Butcher; Hairer-Norsett-Wanner II.2-3, IV.5)"
TB = ["z3 4.x/5.1 (z3-solver wheel)", "CPython 3.11 (python3-vt)", "model/casadi (assumed CasADi contracts)", "contracts/oracle.py (specification)"]


def functions_with_hashes(repo, funcs):
    out = []
    cache = {}
    for f in funcs:
        mod, qual = f.split(":")
        path = os.path.join(repo, "rockit", *mod.split("/")) + ".py"
        if path not in cache:
            try:
                src = open(path).read()
                cache[path] = (src, ast.parse(src))
            except OSError:
                cache[path] = (None, None)
        src, tree = cache[path]
        h = None
        if tree is not None:
            node = tree
            for part in qual.split("."):
                nxt = None
                for n in ast.walk(node) if node is tree else ast.iter_child_nodes(node):
                    if isinstance(n, (ast.FunctionDef, ast.ClassDef)) and n.name == part:
                        nxt = n
                        break
                node = nxt
                if node is None:
                    break
            if node is not None:
                seg = ast.get_source_segment(src, node) or ""
                h = hashlib.sha256(seg.encode()).hexdigest()[:12]
        out.append(dict(function=f, source_sha=h))
    return out


def _m(level, functions, explanation, assumptions, trusted_base=TB):
    return dict(level=level, functions=functions, explanation=explanation, assumptions=assumptions, trusted_base=trusted_base)


SHOOT = ["sampling_method:SamplingMethod.intg_rk", "sampling_method:SamplingMethod.intg_expl_euler", "sampling_method:SamplingMethod.discrete_system",
         "sampling_method:SamplingMethod.get_p_sys", "stage:Stage._ode", "stage:Stage._diffeq",
         "multiple_shooting:MultipleShooting.add_variables", "multiple_shooting:MultipleShooting.add_constraints",
         "single_shooting:SingleShooting.add_variables", "single_shooting:SingleShooting.add_constraints"]
PLACE = ["stage:Stage.subject_to", "sampling_method:SamplingMethod.eval_at_control", "sampling_method:SamplingMethod._eval_at_control",
         "sampling_method:SamplingMethod.eval_at_integrator", "sampling_method:SamplingMethod.eval_at_integrator_root",
         "sampling_method:SamplingMethod.add_constraints_after", "sampling_method:SamplingMethod.add_coupling_constraints",
         "multiple_shooting:MultipleShooting.add_constraints", "single_shooting:SingleShooting.add_constraints",
         "direct_collocation:DirectCollocation.add_constraints", "direct_method:OptiWrapper.subject_to", "direct_method:OptiWrapper.transcribe_placeholders",
         "stage:Stage._expr_apply", "stage:Stage._get_subst_set"]

META = {
    "C01": _m("proof", SHOOT, "The real rockit functions are executed by CPython on a casadi model whose values are z3 terms; the emitted gap rows are compared with the scheme oracle with uninterpreted dynamics.", [A_CASADI, A_OPTI, A_FLOAT, A_PY, A_INTG]),
    "C02": _m("proof", ["direct_collocation:DirectCollocation.__init__", "direct_collocation:DirectCollocation.add_variables", "direct_collocation:DirectCollocation.add_constraints", "sampling_method:SamplingMethod.get_p_sys", "stage:Stage._ode"], "collocation defects / algebraic rows / continuity rows compared with the Lagrange-polynomial oracle", [A_CASADI, A_OPTI, A_FLOAT, A_PY]),
    "C03": _m("proof", SHOOT + ["sampling_method:SamplingMethod.intg_builtin", "ocp:Ocp.sys_simulator", "direct_collocation:DirectCollocation.__init__", "direct_collocation:DirectCollocation.add_constraints"], "scheme identification (C01/C02 obligations) + order conditions of the identified tableaux + collocation tables on the real CasADi + integrator plumbing; limits by citation", [A_CASADI, A_OPTI, A_FLOAT, A_PY, A_INTG, A_MATH_RK, "A-MATH-FLOW: time rescaling tau -> t0 + tau*DT with xdot = DT*f preserves the flow"]),
    "C04": _m("proof", PLACE, "multiset of emitted rows = placement oracle; nothing else emitted", [A_CASADI, A_OPTI, A_FLOAT, A_PY]),
    "C05": _m("proof", ["stage:Stage.add_objective", "direct_method:DirectMethod.fill_placeholders_integral", "sampling_method:SamplingMethod.fill_placeholders_sum_control", "sampling_method:SamplingMethod.fill_placeholders_sum_control_plus", "sampling_method:SamplingMethod.fill_placeholders_integral_control", "sampling_method:SamplingMethod.fill_placeholders_at_t0", "sampling_method:SamplingMethod.fill_placeholders_at_tf", "sampling_method:SamplingMethod.add_objective", "direct_method:OptiWrapper.add_objective", "direct_method:OptiWrapper.transcribe_placeholders", "placeholders:TranscribedPlaceholders.__call__"], "objective handed to Opti.minimize = sum of declared terms", [A_CASADI, A_OPTI, A_FLOAT, A_PY]),
    "C06": _m("proof", ["sampling_method:Grid.__call__", "sampling_method:FixedGrid.bounds_T", "sampling_method:UniformGrid.bounds_T", "sampling_method:UniformGrid.normalized", "sampling_method:GeometricGrid.normalized", "sampling_method:GeometricGrid.growth_factor", "sampling_method:GeometricGrid.bounds_T", "sampling_method:FreeGrid.bounds_T", "sampling_method:SamplingMethod.add_variables_V_control_finalize", "sampling_method:SamplingMethod.add_coupling_constraints", "sampling_method:SamplingMethod.get_DT_at", "sampling_method:SamplingMethod.get_DT_control_at"], "grid = declared partition; coupling rows equivalent to it", [A_CASADI, A_OPTI, A_FLOAT, A_PY]),
    "C07": _m("proof", ["stage:Stage.sample", "stage:Stage._sample", "stage:Stage._parse_grid", "stage:Stage._grid_control", "stage:Stage._grid_integrator", "stage:Stage._grid_integrator_roots", "stage:Stage.value", "stage:Stage._expr_apply", "stage:Stage._get_subst_set", "sampling_method:SamplingMethod.eval_at_control", "sampling_method:SamplingMethod.eval_at_integrator", "sampling_method:SamplingMethod.eval_at_integrator_root", "casadi_helpers:DM2numpy", "solution:OcpSolution.sample", "placeholders:TranscribedPlaceholders.__call__"], "sample(e, grid) column i = e at the values of point i; one time entry per column; DM2numpy index map", [A_CASADI, A_OPTI, A_FLOAT, A_PY, "A-NUMPY: numpy reshape/transpose semantics (DM2numpy is enumerated with the real numpy)"]),
    "C08": _m("proof", ["stage:Stage._grid_intg_fine", "stage:Stage.sampler", "sampling_method:SamplingMethod.intg_rk", "sampling_method:SamplingMethod.intg_expl_euler", "direct_collocation:DirectCollocation.add_constraints", "multiple_shooting:MultipleShooting.add_constraints", "single_shooting:SingleShooting.add_constraints"], "refined samples lie on the per-step polynomial, whose end-point/slope/interpolation conditions are proved; every r-th entry equals the integrator sample", [A_CASADI, A_OPTI, A_FLOAT, A_PY, A_MATH_RK]),
    "C09": _m("proof", ["stage:Stage.set_value", "stage:Stage._param_value", "sampling_method:SamplingMethod.add_parameter", "sampling_method:SamplingMethod.set_parameter", "sampling_method:SamplingMethod.set_value", "sampling_method:SamplingMethod.get_p_control_at", "sampling_method:SamplingMethod.get_p_control_plus_at", "sampling_method:SamplingMethod.get_p_sys"], "parameters enter the NLP exactly as per-interval values", [A_CASADI, A_OPTI, A_FLOAT, A_PY]),
    "C10": _m("proof", ["stage:Stage.set_initial", "sampling_method:SamplingMethod.set_initial", "direct_collocation:DirectCollocation.set_initial", "direct_method:DirectMethod.set_initial", "direct_method:OptiWrapper.set_initial", "direct_method:OptiWrapper.transcribe_placeholders", "sampling_method:SamplingMethod.transcribe"], "starting value of every decision variable (read back in physical units) = the guess oracle", [A_CASADI, A_OPTI, A_FLOAT, A_PY]),
    "C11": _m("proof", ["direct_method:DirectMethod.fill_placeholders_T", "direct_method:DirectMethod.fill_placeholders_t0", "stage:Stage.set_T", "stage:Stage.set_t0", "sampling_method:SamplingMethod.add_variables_V"], "free-time NLP = fixed-time oracle with T a variable plus T>=0", [A_CASADI, A_OPTI, A_FLOAT, A_PY]),
    "C12": _m("proof", ["stage:Stage.stage", "stage:Stage.clone", "stage:Stage.__deepcopy__", "stage:Stage._transcribe_recurse", "stage:Stage._placeholders_transcribe_recurse", "ocp:Ocp._transcribe", "direct_method:DirectMethod.main_transcribe", "direct_method:DirectMethod.transcribe", "direct_method:OptiWrapper.add_objective"], "multi-stage NLP = disjoint union of the stage oracles + master rows; clones = directly declared stages; clone field completeness", [A_CASADI, A_OPTI, A_PY, "deepcopy contract"]),
    "C13": _m("proof", ["ocp:Ocp._transcribed", "ocp:Ocp._transcribe", "ocp:Ocp._untranscribe", "ocp:Ocp.solver", "stage:Stage._set_transcribed", "stage:Stage.set_T", "stage:Stage.set_t0", "stage:Stage.set_value", "stage:Stage.set_initial", "stage:Stage.subject_to", "stage:Stage.add_objective", "stage:Stage.method", "stage:Stage.set_der", "stage:Stage.clear_constraints", "sampling_method:SamplingMethod.clean", "direct_collocation:DirectCollocation.clean", "direct_method:DirectMethod.clean"], "invalidate-or-reapply discipline and clean-completeness as structural obligations over the AST of every public mutator; catalogue of histories compared with the freshly written OCP on the casadi model", [A_CASADI, A_OPTI, A_PY, "deepcopy contract: copy.deepcopy yields an isomorphic object graph with the same CasADi symbols"]),
    "C15": _m("other", ["sampling_method:SamplingMethod.add_inf_constraints", "stage:Stage.inf_der", "stage:Stage.inf_inert", "multiple_shooting:MultipleShooting.add_constraints", "single_shooting:SingleShooting.add_constraints", "direct_collocation:DirectCollocation.add_constraints"], "operands handed to the (assumed) spline algebra are the Bernstein form of the step's own polynomial; Bernstein/convex-hull lemmas by z3", [A_CASADI, A_OPTI, A_PY, "A-BSPLINE-ALG: splines/spline.py BSpline arithmetic/comparison and casadi_helpers.reinterpret_expr return the exact coefficients of the result (replaced by stubs in the engine, not verified)"]),
    "C16": _m("proof", ["stage:Stage.der", "stage:Stage.control", "stage:AbstractSignal.der", "stage:AbstractSignal.register", "stage:Stage.set_der", "stage:Stage._ode"], "der(e) on the casadi model equals the chain rule with uninterpreted partial derivatives, on every branch; control chains; raises", [A_CASADI, A_PY, "jtimes contract: directional derivative (chain rule over uninterpreted functions)"]),
    "C17": _m("other", ["splines/micro_spline:eval_on_knots", "splines/micro_spline:eval_basis_knotindex", "splines/micro_spline:eval_basis_knotindex_subgrid", "splines/micro_spline:bspline_derivative", "sampling_method:BSplineSignal.__init__", "sampling_method:BSplineSignal.sample", "sampling_method:SamplingMethod.add_variables_V", "sampling_method:SamplingMethod.get_signals_at", "stage:Stage._grid_intg_fine"], "spline kernels against an independent exact Cox-de Boor recursion; b-spline variables through the real pipeline", [A_CASADI, A_PY, "SplineMethod is not reachable (networkx missing): trajectories of SplineMethod are not covered", "get_greville_points uses general sparsity patterns that the casadi model does not represent: not covered"]),
    "C20": _m("proof", ["stage:Stage._ode", "stage:Stage._diffeq", "stage:Stage._param_value", "stage:Stage.add_objective", "stage:Stage.set_value", "stage:Stage.set_initial", "stage:Stage.subject_to", "stage:Stage._sample", "stage:Stage.der", "casadi_helpers:for_all_primitives", "direct_method:DirectMethod.main_transcribe", "direct_method:DirectMethod.transcribe", "direct_method:OptiWrapper.subject_to", "direct_method:OptiWrapper.transcribe_placeholders", "sampling_method:SamplingMethod.intg_rk", "sampling_method:SamplingMethod.intg_expl_euler", "sampling_method:SamplingMethod.discrete_system", "sampling_method:SamplingMethod.set_value"], "every catalogued fault x method raises during declaration/transcription of the real code on the casadi model; documented exception handlers only", [A_CASADI, A_OPTI, A_PY, "Function(...) / Opti reject free and foreign symbols and constant constraints (modelled after CasADi, validated natively)"]),
    "C14": _m("proof", ["stage:Stage._parse_scale", "direct_method:OptiWrapper.variable", "direct_method:OptiWrapper.transcribe_placeholders"] + PLACE[:1], "scaled NLP in physical quantities = unscaled oracle rows divided by their scale", [A_CASADI, A_OPTI, A_FLOAT, A_PY]),
}
