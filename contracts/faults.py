"""Catalogue of ill-posed specifications for C20 (back-end agnostic)."""
import casadi as ca
from .backend import ufun, unknown


def _method(m, **kw):
    from rockit import MultipleShooting, SingleShooting, DirectCollocation
    M = dict(MS=MultipleShooting, SS=SingleShooting, DC=DirectCollocation)[m]
    args = dict(N=2, M=1)
    if m == "DC":
        args["degree"] = 2
    args.update(kw)
    return M(**args)


def _ok(m, T=1.0, solver=True, method=True, nstates=2, dae=False, **kw):
    """a well-posed OCP; faults are injected into it"""
    from rockit import Ocp
    ocp = Ocp(T=T)
    xs = [ocp.state() for _ in range(nstates)]
    u = ocp.control()
    p = ocp.parameter()
    for i, x in enumerate(xs):
        ocp.set_der(x, ufun("f%d" % i, 1, xs + [u, p]))
    ocp.set_value(p, 1.5)
    ocp.subject_to(ocp.at_t0(xs[0]) == 0)
    ocp.add_objective(ocp.at_tf(xs[0]))
    if solver:
        ocp.solver("ipopt")
    if method:
        ocp.method(_method(m, **kw))
    return ocp, dict(x=xs, u=u, p=p)


def faults():
    F = {}

    def missing_der(pos):
        def f(m):
            from rockit import Ocp
            ocp = Ocp(T=1.0)
            xs = [ocp.state() for _ in range(3)]
            u = ocp.control()
            for i, x in enumerate(xs):
                if i != pos:
                    ocp.set_der(x, ufun("f%d" % i, 1, xs + [u]))
            ocp.add_objective(ocp.at_tf(xs[0]))
            ocp.solver("ipopt"); ocp.method(_method(m))
            return ocp
        return f
    for pos in range(3):
        F["state-%d-of-3-without-derivative" % pos] = missing_der(pos)

    def missing_next(pos):
        def f(m):
            from rockit import Ocp
            ocp = Ocp(T=1.0)
            xs = [ocp.state() for _ in range(2)]
            u = ocp.control()
            for i, x in enumerate(xs):
                if i != pos:
                    ocp.set_next(x, ufun("g%d" % i, 1, xs + [u]))
            ocp.add_objective(ocp.at_tf(xs[0]))
            ocp.solver("ipopt"); ocp.method(_method(m))
            return ocp
        return f
    for pos in range(2):
        F["state-%d-of-2-without-update-rule" % pos] = missing_next(pos)

    def quad_without_der(m):
        ocp, s = _ok(m)
        q = ocp.state(quad=True)
        ocp.add_objective(ocp.at_tf(q))
        return ocp
    F["quadrature-state-without-derivative"] = quad_without_der

    def param_no_value(kind):
        def f(m):
            ocp, s = _ok(m)
            q = ocp.parameter(grid=kind.rstrip("+"), include_last=kind.endswith("+"))
            ocp.subject_to(s["x"][0] <= q)
            return ocp
        return f
    for kind in ("", "control", "control+"):
        F["parameter-%s-without-value" % (kind or "global")] = param_no_value(kind)

    def no_method(m):
        ocp, s = _ok(m, method=False)
        return ocp
    F["dynamics-without-method"] = no_method

    def no_solver(m):
        ocp, s = _ok(m, solver=False)
        return ocp
    F["no-solver"] = no_solver

    def signal_objective(m):
        ocp, s = _ok(m)
        ocp.add_objective(s["x"][0] ** 2)
        return ocp
    F["signal-valued-objective"] = signal_objective

    def nonscalar_objective(m):
        ocp, s = _ok(m)
        ocp.add_objective(ocp.at_tf(ca.vertcat(*s["x"])))
        return ocp
    F["non-scalar-objective"] = nonscalar_objective

    def value_on_state(m):
        ocp, s = _ok(m)
        ocp.set_value(s["x"][0], 1.0)
        return ocp
    F["set_value-on-a-state"] = value_on_state

    def value_on_variable(kind):
        def f(m):
            from rockit import Ocp
            ocp, s = _ok(m)
            w = ocp.variable() if kind == "global" else ocp.variable(grid="control", include_last=(kind == "control+"))
            ocp.subject_to(w + s["x"][0] <= 5)
            ocp.set_value(w, 3.0)         # FAULT: a decision variable is not a parameter
            return ocp
        return f
    for kind in ("global", "control", "control+"):
        F["set_value-on-a-%s-variable" % kind] = value_on_variable(kind)
    F["set_value-on-a-control"] = lambda m: (lambda os: (os[0].set_value(os[1]["u"], 1.0), os[0])[1])(_ok(m))

    def value_on_foreign(m):
        ocp, s = _ok(m)
        ocp.set_value(ca.MX.sym("alien"), 1.0)
        return ocp
    F["set_value-on-a-foreign-symbol"] = value_on_foreign

    def value_after_on_variable(m):
        ocp, s = _ok(m)
        v = ocp.variable()
        ocp._transcribed
        ocp.set_value(v, 1.0)
        return ocp
    F["set_value-on-a-variable-after-transcription"] = value_after_on_variable

    def initial_on_param(m):
        ocp, s = _ok(m)
        ocp.set_initial(s["p"], 1.0)
        return ocp
    F["set_initial-on-a-parameter"] = initial_on_param

    def initial_on_unknown(m):
        ocp, s = _ok(m)
        ocp.set_initial(ca.MX.sym("alien"), 1.0)
        return ocp
    F["set_initial-on-an-unknown-symbol"] = initial_on_unknown

    def bad_grid_constraint(m):
        ocp, s = _ok(m)
        ocp.subject_to(s["x"][0] <= 1, grid="controll")
        return ocp
    F["unknown-grid-in-subject_to"] = bad_grid_constraint

    # ... at every kind of subject_to position: boundary constraints and constraints on global quantities as well
    def bad_grid_at(which):
        def f(m):
            ocp, s = _ok(m)
            e = {"t0": lambda: ocp.at_t0(s["x"][0]) == 0, "tf": lambda: ocp.at_tf(s["x"][0]) <= 2, "integrator-like": lambda: s["x"][0] + s["u"] <= 3}[which]()
            ocp.subject_to(e, grid="no_such_grid")
            return ocp
        return f
    for which in ("t0", "tf", "integrator-like"):
        F["unknown-grid-in-subject_to-%s" % which] = bad_grid_at(which)

    def bad_grid_objective(kind):
        def f(m):
            ocp, s = _ok(m)
            e = s["x"][0] * s["u"]
            ocp.add_objective(ocp.integral(e, grid="no_such_grid") if kind == "integral" else ocp.sum(e, grid="no_such_grid"))
            return ocp
        return f
    F["unknown-grid-in-integral"] = bad_grid_objective("integral")
    F["unknown-grid-in-sum"] = bad_grid_objective("sum")

    def bad_grid_symbol(kind):
        def f(m):
            ocp, s = _ok(m)
            if kind == "variable":
                w = ocp.variable(grid="no_such_grid")
            else:
                w = ocp.parameter(grid="no_such_grid")
                ocp.set_value(w, 1.0)
            ocp.subject_to(s["x"][0] + w <= 3)
            return ocp
        return f
    F["unknown-grid-in-variable"] = bad_grid_symbol("variable")
    F["unknown-grid-in-parameter"] = bad_grid_symbol("parameter")

    def bad_grid_sample(m):
        ocp, s = _ok(m)
        ocp.sample(s["x"][0], grid="nodes")
        return ocp
    F["unknown-grid-in-sample"] = bad_grid_sample

    def foreign_in_constraint(m):
        ocp, s = _ok(m)
        ocp.subject_to(s["x"][0] <= ca.MX.sym("alien"))
        return ocp
    F["foreign-symbol-in-constraint"] = foreign_in_constraint

    def foreign_in_ode(m):
        from rockit import Ocp
        ocp = Ocp(T=1.0)
        x = ocp.state(); u = ocp.control()
        ocp.set_der(x, u + ca.MX.sym("alien"))
        ocp.add_objective(ocp.at_tf(x)); ocp.solver("ipopt"); ocp.method(_method(m))
        return ocp
    F["foreign-symbol-in-ode"] = foreign_in_ode

    def foreign_in_objective(m):
        ocp, s = _ok(m)
        ocp.add_objective(ocp.at_tf(s["x"][0]) * ca.MX.sym("alien"))
        return ocp
    F["foreign-symbol-in-objective"] = foreign_in_objective

    def other_ocp_symbol(m):
        ocp, s = _ok(m)
        ocp2, s2 = _ok(m)
        ocp.subject_to(s["x"][0] <= s2["x"][0])
        return ocp
    F["state-of-another-ocp-in-constraint"] = other_ocp_symbol

    def false_constant(m):
        ocp, s = _ok(m)
        ocp.subject_to(ca.MX(1) <= 0)
        return ocp
    F["constant-false-constraint"] = false_constant

    def false_via_T(m):
        ocp, s = _ok(m, T=1.0)
        ocp.subject_to(ocp.T <= 0.5)
        return ocp
    F["constant-false-constraint-via-fixed-horizon"] = false_via_T

    def false_via_tf(m):
        ocp, s = _ok(m, T=1.0)
        ocp.subject_to(ocp.at_tf(ocp.t) <= 0.5)
        return ocp
    F["constant-false-constraint-via-at_tf-of-time"] = false_via_tf

    def false_param(m):
        ocp, s = _ok(m)
        ocp.subject_to(s["p"] <= 0.0)       # parameter value 1.5: no decision variable in the constraint
        return ocp
    F["parameter-only-constraint"] = false_param

    def alg_with_explicit(m):
        from rockit import Ocp
        if m == "DC":
            return None
        ocp = Ocp(T=1.0)
        x = ocp.state(); z = ocp.algebraic(); u = ocp.control()
        ocp.set_der(x, z + u)
        ocp.add_alg(z - x)
        ocp.subject_to(-1 <= (u <= 1)); ocp.subject_to(ocp.at_t0(x) == 1)
        ocp.add_objective(ocp.at_tf(x)); ocp.solver("ipopt"); ocp.method(_method(m, intg="rk"))
        return ocp
    F["algebraic-equation-with-explicit-scheme"] = alg_with_explicit

    def alg_with_euler(m):
        from rockit import Ocp
        if m == "DC":
            return None
        ocp = Ocp(T=1.0)
        x = ocp.state(); z = ocp.algebraic(); u = ocp.control()
        ocp.set_der(x, z + u)
        ocp.add_alg(z - x)
        ocp.subject_to(-1 <= (u <= 1)); ocp.subject_to(ocp.at_t0(x) == 1)
        ocp.add_objective(ocp.at_tf(x)); ocp.solver("ipopt"); ocp.method(_method(m, intg="expl_euler"))
        return ocp
    F["algebraic-equation-with-expl_euler"] = alg_with_euler

    def T_in_ode(m):
        from rockit import Ocp, FreeTime
        ocp = Ocp(T=FreeTime(1.0))
        x = ocp.state(); u = ocp.control()
        ocp.set_der(x, u * ocp.T)
        ocp.add_objective(ocp.at_tf(x)); ocp.solver("ipopt"); ocp.method(_method(m))
        return ocp
    F["horizon-symbol-in-ode"] = T_in_ode

    def DT_in_ode(m):
        from rockit import Ocp
        ocp = Ocp(T=1.0)
        x = ocp.state(); u = ocp.control()
        ocp.set_der(x, u * ocp.DT)
        ocp.add_objective(ocp.at_tf(x)); ocp.solver("ipopt"); ocp.method(_method(m))
        return ocp
    F["DT-in-ode"] = DT_in_ode

    def offset_on_integrator_grid(m):
        ocp, s = _ok(m, M=2)
        ocp.subject_to(s["x"][0] + ocp.next(s["x"][0]) <= 3, grid="integrator")      # shifted operands exist on the control grid only
        return ocp
    F["shifted-operand-in-an-integrator-grid-constraint"] = offset_on_integrator_grid

    def der_of_control(m):
        ocp, s = _ok(m)
        ocp.subject_to(ocp.der(s["u"]) <= 1)
        return ocp
    F["derivative-of-a-piecewise-constant-control"] = der_of_control

    # the fault sits in ONE of several stages created from the same template: the sibling's value / rule is no excuse
    def clone_without_value(kind, valued):
        def f(m):
            from rockit import Ocp, Stage
            tmpl = Stage(T=1.0)
            x = tmpl.state(); u = tmpl.control()
            q = tmpl.parameter(grid=kind.rstrip("+"), include_last=kind.endswith("+"))
            tmpl.set_der(x, ufun("f", 1, [x, u, q]))
            tmpl.subject_to(x <= q)
            tmpl.add_objective(tmpl.at_tf(x))
            tmpl.method(_method(m))
            ocp = Ocp()
            clones = [ocp.stage(tmpl, t0=0.0), ocp.stage(tmpl, t0=1.0)]
            cols = {"": 1, "control": 2, "control+": 3}[kind]
            clones[valued].set_value(q, ca.DM([[1.5] * cols]))        # the OTHER clone never gets a value
            ocp.solver("ipopt")
            return ocp
        return f
    for kind in ("", "control", "control+"):
        for valued in (0, 1):
            F["clone-%d-of-2-without-%s-parameter-value" % (1 - valued, kind or "global")] = clone_without_value(kind, valued)

    def clone_rule_cleared(m):
        from rockit import Ocp, Stage
        tmpl = Stage(T=1.0)
        x = tmpl.state(); y = tmpl.state(); u = tmpl.control()
        tmpl.set_der(x, ufun("f", 1, [x, y, u]))
        tmpl.add_objective(tmpl.at_tf(x))
        tmpl.method(_method(m))
        ocp = Ocp()
        a = ocp.stage(tmpl, t0=0.0)
        tmpl.set_der(y, ufun("g", 1, [x, y, u]))       # given to the template AFTER the first clone was made
        b = ocp.stage(tmpl, t0=1.0)
        ocp.solver("ipopt")
        return ocp
    F["clone-made-before-the-template-got-its-last-derivative"] = clone_rule_cleared

    # the fault is introduced AFTER a first (valid) transcription: the next one must notice it
    def late_state(kind):
        def f(m):
            ocp, s = _ok(m)
            ocp._transcribed
            if kind == "state":
                ocp.state()
            elif kind == "quadrature":
                ocp.state(quad=True)
            elif kind == "registered":
                ocp.register_state(ca.MX.sym("late"))
            elif kind == "parameter":
                q = ocp.parameter()
                ocp.subject_to(s["x"][0] <= q)
            return ocp
        return f
    for kind in ("state", "quadrature", "registered", "parameter"):
        F["%s-without-%s-declared-after-a-first-transcription" % (kind, "value" if kind == "parameter" else "derivative")] = late_state(kind)
    return F
