"""
C07: sampling commutes with expression evaluation.

bounded tasks   : ocp.sample(e, grid=g) / ocp.value(e) of the real code on the casadi model equal
                  the expression at the point's own ingredient values, and the time vector has one
                  entry per returned column, namely that point's time.
enumerated task : casadi_helpers.DM2numpy index map  out[i, a, b] == dm[a, i*c + b]  and shape rule.
"""
import itertools

import casadi as ca

from vc.core import ctx
from vc.runner import Task
from . import nlp
from .spec import Spec, E, Con
from .oracle import Oracle, getter
from .catalog import NONUNIFORM


def sample_check_more(spec, exprs, grids, inst):
    """further expressions / grids on a specification that sample_check has already built and transcribed"""
    return sample_check(spec, exprs, grids, inst, built_already=True)


def sample_check(spec, exprs, grids, inst, built_already=False):
    c = ctx()
    if not built_already:
        spec.build()
    ocp = spec.ocp
    # expressions are declared before transcription (like a user would)
    built = []
    for ex, shape in exprs:
        e = ex.on(spec.atom)
        if shape:
            e = ca.reshape(e, shape[0], shape[1])
        built.append((ex, shape, e))
    meth = spec.transcribe()
    orc = Oracle(spec, meth).expected()
    N, M = spec.N, spec.M
    ts = orc.ts
    base = "stage:Stage.sample"
    for ex, shape, e in built:
        r, cc = shape if shape else (ex.nout, 1)
        signal = orc.is_signal(Con(ex))
        for grid in grids:
            name = "%s|%s:ensures:[%s,%s%s]" % (inst, base, ex.name, grid, "" if not shape else ",%dx%d" % shape)
            if not signal:
                continue
            try:
                time, res = ocp.sample(e, grid=grid)
            except Exception as err:
                c.fail(name + ":no-exception", "%s: %s" % (type(err).__name__, str(err)[:200]))
                continue
            pts = []      # (time, getter)
            if grid in ("control", "control-"):
                last = N if grid == "control-" else N + 1
                for j in range(last):
                    pts.append((ts[j], getter(spec, orc.node_env, j)))
            elif grid in ("integrator", "integrator-"):
                for k in range(N):
                    h = (ts[k + 1] - ts[k]) / M
                    for l in range(M):
                        d = orc.integrator_env(k, l, orc.xk)
                        pts.append((d["t"], lambda a, d=d: d[a]))
                if grid == "integrator":
                    pts.append((ts[N], getter(spec, orc.node_env, N)))
            elif grid == "integrator_roots":
                for key in sorted(orc.roots):
                    d = orc.roots[key]
                    pts.append((d["t"], lambda a, d=d: d[a]))
            time, res = ca.MX(time), ca.MX(res)
            # one time entry per returned column
            ncol = res.shape[1] // cc if cc else 0
            c.prove(name + ":time-value-agreement", time.numel() == ncol and ncol == len(pts),
                    detail="time entries %d, value columns %d, grid points %d" % (time.numel(), ncol, len(pts)))
            if time.numel() != len(pts) or ncol != len(pts):
                continue
            nlp.prove_equal(name + ":time", ca.vec(time), ca.vcat([p[0] for p in pts]))
            exp = []
            for t, get in pts:
                v = ex.on(get)
                if shape:
                    v = ca.reshape(v, r, cc)
                exp.append(v)
            nlp.prove_equal(name + ":values", res, ca.hcat(exp))
        if not signal:
            name = "%s|stage:Stage.value:ensures:[%s]" % (inst, ex.name)
            v = ocp.value(e)
            want = ex.on(orc.point_getter(orc.node_env))
            if shape:
                want = ca.reshape(want, r, cc)
            nlp.prove_equal(name, v, want)


def dm2numpy_enumerated():
    import numpy as np
    from rockit.casadi_helpers import DM2numpy
    c = ctx()
    n = 0
    for r, cc, tdim in itertools.product((1, 2, 3), (1, 2, 3), (1, 2, 4)):
        dm = ca.DM(np.arange(r * cc * tdim, dtype=float).reshape((r, cc * tdim)) + 1)
        out = DM2numpy(dm, (r, cc), tdim)
        shape = (tdim,) + tuple(e for e in (r, cc) if e != 1)
        ok = out.shape == shape
        full = np.array(out).reshape((tdim, r, cc))
        for i in range(tdim):
            for a in range(r):
                for b in range(cc):
                    ok = ok and full[i, a, b] == float(dm[a, i * cc + b])
        name = "casadi_helpers:DM2numpy:ensures:index-map[r=%d,c=%d,tdim=%d]" % (r, cc, tdim)
        if ok:
            c.ok(name, backend="enumerated")
        else:
            c.fail(name, "out[i,a,b] != dm[a, i*c+b] or shape %s != %s" % (out.shape, shape))
        n += 1
    out = DM2numpy(ca.DM([[1.0, 2.0]]), (1, 2), None)
    (c.ok if out.shape == (2,) else lambda *a, **k: c.fail(a[0], "shape"))("casadi_helpers:DM2numpy:ensures:no-time-dimension")


def methodless_master():
    """an Ocp without dynamics: value() of expressions of its variables and parameters"""
    from rockit import Ocp
    from .backend import ufun, unknown
    c = ctx()
    ocp = Ocp()
    a = ocp.variable(2); b = ocp.variable(); q = ocp.parameter(); r = ocp.parameter(2)
    ocp.set_value(q, unknown("qv", 1, 1)); ocp.set_value(r, unknown("rv", 2, 1))
    ocp.subject_to(ufun("cc", 1, [a, b, q, r]) <= 1)
    ocp.add_objective(ufun("oo", 1, [a, b, q]))
    ocp.solver("ipopt")
    e = ufun("ve", 2, [a, b, q, r])
    val = ocp.value(e)
    m = ocp._augmented._method
    V, P = ca.MX(m.V), m.P
    nlp.prove_equal("C07/methodless|stage:Stage.value:ensures:variables-and-parameters-keep-their-own-values", val, ufun("ve", 2, [V[:2], V[2], P[0], P[1]]))
    opti = m.opti
    from .backend import MODEL
    nlp.prove_equal("C07/methodless|direct_method:DirectMethod.transcribe:ensures:objective", opti._f if MODEL else opti.f, ufun("oo", 1, [V[:2], V[2], P[0]]))
    if not MODEL:
        return          # the row matching below reads the engine's ghost NLP
    rows = nlp.emitted_rows(opti)
    nlp.match_rows("C07/methodless|direct_method:DirectMethod.transcribe:ensures:point-constraint", rows, [("le", (ufun("cc", 1, [V[:2], V[2], P[0], P[1]]) - 1).e[0], ("cc",))])


def grid_control_contract(include_first, include_last):
    """Stage._grid_control for ALL N >= 1 (symbolic), MultipleShooting pre-state (representation invariant of
    add_variables / add_parameter, C14 contract): entry j of sample(e, grid='control') is e with every symbol read at
    control node n_j -- states and include_last quantities at the node, controls and per-interval quantities of the
    node's interval (last interval at the final node), time = the grid's node time; one time entry per value."""
    import z3
    from vc.core import fresh_int, unwrap_int, SymInt, isolated
    from vc.symlist import SymList, vc_len
    from vc import loops, contract
    from .unbounded import Pre
    from .backend import ufun
    from rockit.stage import Stage
    c = ctx()
    pre = Pre(method="MS", M=1)
    ocp, meth, N = pre.ocp, pre.meth, pre.N
    if not include_first or not include_last:
        c.assume((N >= 2).z)
    atoms = [a for a in ("x", "u", "t", "p", "pc", "pcp", "v", "vc", "vcp")]
    e = ufun("e", 1, [pre.sym_atoms[a] for a in atoms])
    QUAL = "stage:Stage._grid_control"

    def at_node(n):
        """expected value at control node n in [0, N] (or -1 for the final node)"""
        n = unwrap_int(n)
        final = (n == -1) | (n == N)
        if final:
            node, k = N, unwrap_int(N - 1)
        else:
            node, k = n, n
        d = pre.env(k, node=node)
        d["x"] = pre.Xf(node)
        d["t"] = ca.MX._raw(1, 1, [pre.tg(node)])
        return ufun("e", 1, [d[a] for a in atoms])

    def state(i, env):
        ks = env["ks"]
        return {"sub_expr": SymList(i, lambda j: at_node(ks[j]), "sub_expr")}

    loops.SPECS.clear()
    loops.SPECS[(QUAL, 0)] = loops.LoopSpec(state=state)
    with loops.patched(Stage, "_grid_control", QUAL):
        time, res = ocp._grid_control(ocp, e, "control", include_first=include_first, include_last=include_last)
    tag = "[include_first=%s,include_last=%s]" % (include_first, include_last)
    n_expected = N + 1 - (0 if include_first else 1) - (0 if include_last else 1)
    c.prove(QUAL + ":ensures:number-of-values" + tag, res.shape[1] == n_expected)
    c.prove(QUAL + ":ensures:one-time-entry-per-value" + tag, time.numel() == n_expected)
    j = fresh_int("j")
    c.assume((j >= 0).z)
    c.assume((j < n_expected).z)

    def post():
        node = j if include_first else unwrap_int(j + 1)
        nlp.prove_equal(QUAL + ":ensures:value-at-node" + tag, res[j], at_node(node))
        nlp.prove_equal(QUAL + ":ensures:time-at-node" + tag, time[j], ca.MX._raw(1, 1, [pre.tg(node)]))
    isolated(post, QUAL)


def tasks(tier):
    out = [Task("C07/methodless-master", methodless_master, kind="bounded", bound=dict(variables=[2, 1], parameters=[1, 2]),
                replay=dict(harness="task_probe", module="contracts.c07", task="C07/methodless-master", tier=tier))]
    exprs = lambda: [(E("s1", 1, ("x", "u", "t", "p", "pc", "pcp", "v", "vc", "vcp", "T", "t0")), None),
                     (E("s3", 3, ("x", "t")), None),
                     (E("sm", 4, ("x", "u")), (2, 2)),
                     (E("sr", 3, ("x", "t", "DT", "DT_control")), (1, 3)),
                     (E("sv", 2, ("p", "v", "T")), None)]
    P = {"": [1], "control": [1], "control+": [1]}
    grids_all = [("uniform", dict(kind="uniform"), ("unknown",))] + list(NONUNIFORM)
    for meth in ("MS", "SS", "DC"):
        gl = ["control", "control-", "integrator", "integrator-"] + (["integrator_roots"] if meth == "DC" else [])
        for (N, M) in ((2, 1), (3, 2)):
            for gname, g, Tk in grids_all:
                if tier != "thorough" and gname not in ("uniform", "geometric-Tfree") and (N, M) != (3, 2):
                    continue
                label = "C07/%s-N%d-M%d-%s" % (meth, N, M, gname)
                def fn(meth=meth, N=N, M=M, g=g, Tk=Tk, label=label, gl=gl):
                    spec = Spec(method=meth, N=N, M=M, degree=2, grid=dict(g), T=Tk, t0=("unknown",), params=P, variables=P,
                                ode=E("f", None, ("x", "u", "t")), label=label)
                    sample_check(spec, exprs(), gl, label)
                out.append(Task(label, fn, kind="bounded", replay=dict(harness="task_probe", module="contracts.c07", task=label, tier=tier),
                                bound=dict(method=meth, N=N, M=M, grid=g, T=list(Tk), grids=gl)))
    # algebraic variables of a DAE under collocation: sampled values at nodes / integrator points / collocation times
    for (N, M) in ((2, 1), (3, 2)):
        label = "C07/DC-dae-N%d-M%d" % (N, M)
        def fn(N=N, M=M, label=label):
            spec = Spec(method="DC", N=N, M=M, degree=2, T=("unknown",), t0=("unknown",), algebraics=[1], ode=E("f", None, ("x", "u", "z", "t")),
                        alg=E("g", None, ("x", "z", "u")), label=label)
            sample_check(spec, [(E("sz", 2, ("x", "z", "u", "t")), None), (E("sz0", 1, ("z",)), None), (E("szu", 2, ("z", "u")), None), (E("su0", 1, ("u",)), None)],
                         ["control", "control-", "integrator", "integrator-", "integrator_roots"], label)
        out.append(Task(label, fn, kind="bounded", replay=dict(harness="task_probe", module="contracts.c07", task=label, tier=tier), bound=dict(method="DC", N=N, M=M, algebraics=1)))
    # generated specifications (contracts/randspec.py): an expression of every declared symbol sampled on every grid
    from . import randspec
    for i in range(120 if tier == "thorough" else 40):
        kw = randspec.make(i)
        if kw.get("discrete"):
            continue
        label = "C07/R%03d-%s" % (i, kw["method"])
        def fn(i=i, label=label):
            kw = randspec.make(i)
            spec = Spec(**kw)
            spec.label = label
            have = [a for a in ("x", "u", "z", "t", "p", "pc", "pcp", "v", "vc", "vcp", "T", "t0") if a not in ("u", "z") or kw["controls" if a == "u" else "algebraics"]] + (["w"] if kw.get("hoc") else [])
            between = [a for a in have if a != "z" or (kw.get("scheme") == "radau" and kw.get("degree", 2) <= 2)]
            grids = ["control", "control-", "integrator", "integrator-"]
            # a second expression WITHOUT states and time (piecewise-constant and algebraic ingredients only)
            flat = [a for a in between if a not in ("x", "t", "T", "t0", "w")]
            exprs = [(E("sa", 2, tuple(between)), None)] + ([(E("sb", 1, tuple(flat)), None)] if flat else [])
            if kw["method"] == "DC":
                roots = [a for a in have if a not in ("T", "t0")]
                flat_r = [a for a in roots if a not in ("x", "t", "w")]
                sample_check(spec, exprs, grids, label)
                sample_check_more(spec, [(E("sr", 2, tuple(roots)), None)] + ([(E("srz", 1, tuple(flat_r)), None)] if flat_r else []), ["integrator_roots"], label)
                return
            sample_check(spec, exprs, grids, label)
        out.append(Task(label, fn, kind="bounded", replay=dict(harness="task_probe", module="contracts.c07", task=label, tier=tier), bound=dict(generated=i)))
    from . import c08
    out += c08.tasks(tier, prop="C07")
    for f_, l_ in ((True, True), (False, True), (True, False)):
        out.append(Task("C07/proof/Stage._grid_control[N symbolic,first=%s,last=%s]" % (f_, l_), lambda f_=f_, l_=l_: grid_control_contract(f_, l_), kind="proof",
                        functions=["stage:Stage._grid_control", "sampling_method:SamplingMethod.eval_at_control", "sampling_method:SamplingMethod._eval_at_control"],
                        bound=dict(N="symbolic (all N>=1)", expression="uninterpreted scalar function of every kind of symbol", method="MultipleShooting pre-state")))
    out.append(Task("C07/DM2numpy", dm2numpy_enumerated, kind="enumerated", bound=dict(r="1..3", c="1..3", tdim="1,2,4")))
    return out
