"""
C15: grid='inf' constraints guarantee satisfaction between grid points.

The argument is modular; every link is an obligation on the REAL code (on the casadi model):
  (1) SamplingMethod.add_inf_constraints  [inf_check]: with the spline classes and reinterpret_expr replaced by their
      CONTRACTS (SplineStub / reinterpret_stub below), the coefficients handed over for every state are the Bernstein
      coefficients, on the step normalised to [0,1], of the integration scheme's own polynomial for THIS integrator
      step (coefficient i scaled by h^i with h the step's own length; exact monomial-to-Bernstein matrix); inf_der
      operands are the derivative spline of that state times 1/h with the same h; inf_inert operands are passed
      through; operands are listed in the order of the symbols they replace; one call per integrator step (k, l) with
      interval-k data.  Exact equalities, symbolic horizon / grids.
  (2) the contracts used in (1) are themselves discharged on the real callee code:
      * rockit/splines/spline.py (BSpline / BSplineBasis / Basis) [algebra_op, algebra_cmp]: +, -, *, **, unary -,
        scalar and symbol operands, derivative, <=, >=, <, > on Bernstein-form operands with SYMBOLIC coefficients
        return the Bernstein form, of the right degree, of the exact result polynomial.  The basis transformations are
        floating-point linear solves, so the identity is decided with a tolerance of 1e-9 on every coefficient of the
        difference in the Bernstein basis (A-FLOAT) -- for all coefficient values, degrees enumerated (bounded).
      * casadi_helpers.reinterpret_expr [reinterpret_contract]: for the listed constraint shapes the rows returned are
        the Bernstein coefficients of rhs - lhs of the user's constraint on the operand polynomials (instruction view of
        casadi.Function: assumed dependency contract A-CASADI-INSTR; the native replay uses CasADi's own).
  (3) Lemmas discharged by z3 (pure mathematics, unbounded): the degree-4 Bernstein expansion reproduces the
      polynomial, the Bernstein basis is non-negative on [0,1] and sums to one, hence max_i b_i bounds the polynomial
      on the whole step; the derivative coefficients 4*(b[i+1]-b[i]) expand the derivative.
Not covered: vector-valued states inside grid='inf' constraints (coefficient matrices), degrees above those listed.
"""
import itertools
from math import comb

import z3
import casadi as ca

from vc.core import ctx
from vc.runner import Task
from . import nlp
from .spec import Spec, E, Con
from .oracle import Oracle
from .backend import ufun, unknown, MODEL
from .catalog import NONUNIFORM


class BasisStub:
    def __init__(self, knots, degree):
        self.knots, self.degree = list(knots), degree


class SplineStub:
    """assumed contract of splines.BSpline restricted to what add_inf_constraints uses"""
    def __init__(self, basis, coeff):
        self.basis, self.coeff = basis, ca.MX(coeff)

    def derivative(self):
        d = self.basis.degree
        c = self.coeff
        n = c.shape[0]
        dc = ca.vcat([d * (c[i + 1, :] - c[i, :]) for i in range(n - 1)])
        return SplineStub(BasisStub([0] * d + [1] * d, d - 1), dc)

    def __mul__(self, s):
        return SplineStub(self.basis, self.coeff * s)

    __rmul__ = __mul__


CALLS = []


def reinterpret_stub(expr, sym_from, sym_to):
    """assumed contract of casadi_helpers.reinterpret_expr + spline comparison operators:
    the result is *some* fixed function of the operands (in order) -- recorded for the obligations"""
    ops = []
    for t in sym_to:
        ops.append(ca.vec(t.coeff) if isinstance(t, SplineStub) else ca.vec(ca.MX(t)))
    CALLS.append(dict(expr=expr, sym_from=list(sym_from), ops=ops, kinds=["spline%d" % t.basis.degree if isinstance(t, SplineStub) else "value" for t in sym_to]))
    return ufun("INF_%d" % (len(CALLS) % 1000), 1, ops) <= 0


M4 = [[comb(i, j) / comb(4, j) if j <= i else 0.0 for j in range(5)] for i in range(5)]


def bernstein_of_step(co, h):
    """Bernstein coefficients on [0,1] of p(s) = sum_j co[:, j] (h s)^j  (rows: coefficient index)"""
    co = ca.MX(co)
    a = [co[:, j] * (h ** j if j else 1) for j in range(co.shape[1])]
    rows = []
    for i in range(5):
        r = 0
        for j in range(i + 1):
            from fractions import Fraction
            r = r + a[j] * (Fraction(comb(i, j), comb(4, j)) if MODEL else comb(i, j) / comb(4, j))
        rows.append(r.T)
    return ca.vcat(rows)       # 5 x nx


def inf_check(spec_kw, inst):
    import rockit.sampling_method as sm
    c = ctx()
    del CALLS[:]
    saved = (sm.BSpline, sm.BSplineBasis, sm.reinterpret_expr)
    sm.BSpline, sm.BSplineBasis, sm.reinterpret_expr = SplineStub, BasisStub, reinterpret_stub
    try:
        spec = Spec(states=[1, 1], **spec_kw)
        spec.build()
        ocp = spec.ocp
        x0, x1 = spec.sym["x"][0], spec.sym["x"][1]
        inert = unknown("ub", 1, 1)
        dsym, isym = ocp.inf_der(x0), ocp.inf_inert(ca.MX(inert))
        ocp.subject_to(x0 + 0.5 * dsym <= isym, grid="inf")
        ocp.subject_to(x1 * x0 <= 2.0, grid="inf")
        meth = spec.transcribe()
    finally:
        sm.BSpline, sm.BSplineBasis, sm.reinterpret_expr = saved
    orc = Oracle(spec, meth)
    ts = orc.ts
    N, M = spec.N, spec.M
    for k in range(N):
        nlp.assume_nonzero(ts[k + 1] - ts[k])      # grids with T > 0: interval lengths are non-zero
    base = "%s|sampling_method:SamplingMethod.add_inf_constraints" % inst
    c.prove(base + ":ensures:one-call-per-integrator-step-and-constraint", len(CALLS) == 2 * N * M, detail="%d calls for N=%d M=%d and 2 constraints" % (len(CALLS), N, M))
    if len(CALLS) != 2 * N * M:
        return
    idx = 0
    nx = sum(spec.states)
    for k in range(N):
        h = (ts[k + 1] - ts[k]) / M
        for l in range(M):
            co = meth.poly_coeff[k * M + l]
            B = bernstein_of_step(co, h)
            for ci in range(2):
                call = CALLS[idx]
                idx += 1
                tag = "[k=%d,l=%d,c=%d]" % (k, l, ci)
                # states first, in declaration order
                for s in range(nx):
                    nlp.prove_equal(base + ":ensures:state-operand-is-bernstein-form-of-own-step" + tag + "[x%d]" % s, call["ops"][s], B[:, s])
                # then derivative operands: derivative spline / h
                nder = len(spec.ocp._inf_der) if False else 1
                dB = ca.vcat([4 * (B[i + 1, 0] - B[i, 0]) for i in range(4)]) * (1 / h)
                nlp.prove_equal(base + ":ensures:inf_der-operand-is-derivative-per-unit-time" + tag, call["ops"][nx], dB)
                nlp.prove_equal(base + ":ensures:inf_inert-operand-passed-through" + tag, call["ops"][nx + 1], ca.MX(inert))
                c.prove(base + ":ensures:operand-kinds" + tag, call["kinds"] == ["spline4"] * nx + ["spline3", "value"])
                # ... and every operand stands for ITS symbol of the constraint expression: the states, then the inf_der symbol,
                # then the inf_inert symbol (the two lists handed to reinterpret_expr are aligned)
                want_from = [x0, x1, dsym, isym]
                ok = len(call["sym_from"]) == len(want_from) and all(ca.is_equal(ca.MX(a), ca.MX(b)) for a, b in zip(call["sym_from"], want_from))
                (c.ok if ok else lambda n_, **kw_: c.fail(n_, "symbols %s are paired with operands of kinds %s" % ([str(a) for a in call["sym_from"]], call["kinds"])))(base + ":ensures:operands-paired-with-their-symbols" + tag, backend="z3")


# ---------------------------------------------------------------------------------------------------------------
# contract of the spline algebra itself (the REAL rockit/splines/spline.py on the casadi model): discharges A-BSPLINE-ALG
# ---------------------------------------------------------------------------------------------------------------
def bern_poly(coeffs, d, s):
    """sum_i c_i C(d,i) s^i (1-s)^(d-i) as a z3 term in the variable s"""
    coeffs = ca.MX(coeffs)
    tot = z3.RealVal(0)
    for i in range(d + 1):
        tot = tot + ca.tz(coeffs.e[i]) * z3.RealVal(comb(d, i)) * (s ** i if i else z3.RealVal(1)) * ((1 - s) ** (d - i) if d - i else z3.RealVal(1))
    return tot


def _is_bernstein(basis, d):
    k = [float(x) for x in basis.knots]
    return basis.degree == d and k == [0.0] * (d + 1) + [1.0] * (d + 1)


def _sym_spline(name, d):
    from rockit.splines.spline import BSpline, BSplineBasis
    c = ca.MX.sym(name, d + 1)
    return BSpline(BSplineBasis([0] * (d + 1) + [1] * (d + 1), d), c), c


def algebra_op(opname, p, q=None):
    """one operation of the real BSpline class on Bernstein-form operands with SYMBOLIC coefficients: the result is in
    Bernstein form of the stated degree and represents exactly (up to the rounding of the numeric basis transformation,
    tolerance 1e-9 on every monomial coefficient) the polynomial op(a, b)  --  for ALL coefficient values."""
    c = ctx()
    s = z3.Real("s")
    a, ca_ = _sym_spline("a", p)
    pa = bern_poly(ca_, p, s)
    b = cb = pb = None
    if q is not None:
        b, cb = _sym_spline("b", q)
        pb = bern_poly(cb, q, s)
    w = ca.MX.sym("w")
    base = "splines.spline:BSpline.%s:ensures[%s]" % (opname, "p=%d" % p + (",q=%d" % q if q is not None else ""))
    try:
        if opname == "__add__":
            r, want, d = a + b, pa + pb, max(p, q)
        elif opname == "__sub__":
            r, want, d = a - b, pa - pb, max(p, q)
        elif opname == "__mul__":
            r, want, d = a * b, pa * pb, p + q
        elif opname == "__pow__2":
            r, want, d = a ** 2, pa * pa, 2 * p
        elif opname == "__pow__3":
            r, want, d = a ** 3, pa * pa * pa, 3 * p
        elif opname == "__neg__":
            r, want, d = -a, -pa, p
        elif opname == "__mul__number":
            r, want, d = a * 2.5, pa * z3.RealVal("5/2"), p
        elif opname == "__rmul__DM":
            r, want, d = ca.DM(0.5) * a, pa * z3.RealVal("1/2"), p
        elif opname == "__rmul__symbol":
            r, want, d = w * a, ca.tz(w.e[0]) * pa, p
        elif opname == "__add__number":
            r, want, d = a + 1.5, pa + z3.RealVal("3/2"), p
        elif opname == "__radd__symbol":
            r, want, d = w + a, ca.tz(w.e[0]) + pa, p
        elif opname == "__rsub__number":
            r, want, d = 2.0 - a, z3.RealVal(2) - pa, p
        elif opname == "derivative":
            r, d = a.derivative(), p - 1
            want = None
        else:
            raise ValueError(opname)
    except Exception as e:
        c.fail(base + ":no-exception", "%s: %s" % (type(e).__name__, str(e)[:200]))
        return
    ok = _is_bernstein(r.basis, d) and ca.MX(r.coeffs).numel() == d + 1
    c.prove(base + ":result-is-in-bernstein-form-of-degree-%d" % d, ok, detail="degree %s, knots %s, %d coefficients" % (r.basis.degree, [float(x) for x in r.basis.knots], ca.MX(r.coeffs).numel()))
    if not ok:
        return
    got = bern_poly(r.coeffs, d, s)
    if opname == "derivative":
        # d/ds of sum a_i B_i^p  --  written out: sum a_i C(p,i) (i s^(i-1) (1-s)^(p-i) - (p-i) s^i (1-s)^(p-i-1))
        want = z3.RealVal(0)
        for i in range(p + 1):
            t1 = z3.RealVal(i) * (s ** (i - 1) if i > 1 else z3.RealVal(1)) * ((1 - s) ** (p - i) if p - i else z3.RealVal(1)) if i else z3.RealVal(0)
            t2 = z3.RealVal(p - i) * (s ** i if i else z3.RealVal(1)) * ((1 - s) ** (p - i - 1) if p - i > 1 else z3.RealVal(1)) if p - i else z3.RealVal(0)
            want = want + ca.tz(ca_.e[i]) * z3.RealVal(comb(p, i)) * (t1 - t2)
    nlp.prove_close(base + ":represents-the-exact-polynomial", ca.MX._raw(1, 1, [got]), ca.MX._raw(1, 1, [want]), bernstein=(s, d))


def algebra_cmp(opname, p, q):
    """comparison operators hand back coefficient-wise comparisons on a COMMON Bernstein basis: lhs_i - rhs_i are the
    Bernstein coefficients of a - b (so rows <= 0 bound a - b on the whole of [0,1] by the convex-hull lemma)"""
    c = ctx()
    s = z3.Real("s")
    a, ca_ = _sym_spline("a", p)
    pa = bern_poly(ca_, p, s)
    w = ca.MX.sym("w")
    if q is None:
        other, pb, d = w, ca.tz(w.e[0]), p
    elif q == "number":
        other, pb, d = 2.0, z3.RealVal(2), p
    else:
        b, cb = _sym_spline("b", q)
        other, pb, d = b, bern_poly(cb, q, s), max(p, q)
    base = "splines.spline:BSpline.%s:ensures[p=%d,q=%s]" % (opname, p, q)
    try:
        r = {"__le__": lambda: a <= other, "__ge__": lambda: a >= other, "__lt__": lambda: a < other, "__gt__": lambda: a > other,
             "reflected-le": lambda: other <= a}[opname]()
    except Exception as e:
        c.fail(base + ":no-exception", "%s: %s" % (type(e).__name__, str(e)[:200]))
        return
    r = ca.MX(r)
    deps = getattr(r, "_deps", None)
    if deps is None or r.numel() != d + 1:
        c.fail(base + ":result-is-one-comparison-per-coefficient", "%d entries, comparison structure %s (expected %d rows)" % (r.numel(), "present" if deps else "absent", d + 1))
        return
    c.ok(base + ":result-is-one-comparison-per-coefficient", detail="%d rows" % r.numel(), backend="z3")
    lo, hi = ca.MX(deps[0]), ca.MX(deps[1])          # lo <= hi  (>= is represented swapped)
    lo = ca.repmat(lo, d + 1, 1) if lo.numel() == 1 else lo
    hi = ca.repmat(hi, d + 1, 1) if hi.numel() == 1 else hi
    got = bern_poly(hi - lo, d, s)
    small_minus_big = {"__le__": pb - pa, "__lt__": pb - pa, "__ge__": pa - pb, "__gt__": pa - pb, "reflected-le": pa - pb}[opname]
    nlp.prove_close(base + ":rows-are-bernstein-coefficients-of-the-difference", ca.MX._raw(1, 1, [got]), ca.MX._raw(1, 1, [small_minus_big]), bernstein=(s, d))
    c.prove(base + ":strictness", r._op == ("lt" if opname in ("__lt__", "__gt__") else "le"))


from .shapes import REINTERPRET_SHAPES


def reinterpret_contract(shape):
    """the REAL casadi_helpers.reinterpret_expr with REAL BSpline operands (symbolic Bernstein coefficients): the
    comparison it returns has one row per coefficient of a common Bernstein basis, and (hi - lo) are the Bernstein
    coefficients of rhs - lhs of the user's constraint with every replaced symbol read as its operand polynomial.
    Together with the convex-hull lemma: rows hold  =>  the constraint holds on the whole step."""
    from rockit.casadi_helpers import reinterpret_expr
    c = ctx()
    s = z3.Real("s")
    X0, X1, D0, W = ca.MX.sym("X0"), ca.MX.sym("X1"), ca.MX.sym("D0"), ca.MX.sym("W")
    a, ca_ = _sym_spline("a", 4)
    b, cb = _sym_spline("b", 4)
    da, cd = _sym_spline("d", 3)
    w = ca.MX.sym("w")
    expr = REINTERPRET_SHAPES[shape](X0, X1, D0, W)
    base = "casadi_helpers:reinterpret_expr:ensures[%s]" % shape
    try:
        r = reinterpret_expr(expr, [X0, X1, D0, W], [a, b, da, w])
    except Exception as e:
        c.fail(base + ":no-exception", "%s: %s" % (type(e).__name__, str(e)[:200]))
        return
    if r is None or not isinstance(r, ca.Mat) or getattr(r, "_deps", None) is None:
        c.fail(base + ":result-is-a-coefficient-wise-comparison", "got %r" % (type(r).__name__,))
        return
    lo, hi = ca.MX(r._deps[0]), ca.MX(r._deps[1])
    n = max(lo.numel(), hi.numel())
    lo = ca.repmat(lo, n, 1) if lo.numel() == 1 else lo
    hi = ca.repmat(hi, n, 1) if hi.numel() == 1 else hi
    d = n - 1
    c.ok(base + ":result-is-a-coefficient-wise-comparison", detail="%d rows" % n, backend="z3")
    ulo, uhi = ca.MX(expr._deps[0]), ca.MX(expr._deps[1])
    polys = [(ca.tz(X0.e[0]), bern_poly(ca_, 4, s)), (ca.tz(X1.e[0]), bern_poly(cb, 4, s)), (ca.tz(D0.e[0]), bern_poly(cd, 3, s)), (ca.tz(W.e[0]), ca.tz(w.e[0]))]
    want = z3.substitute(ca.tz((uhi - ulo).e[0]), *polys)
    nlp.prove_close(base + ":rows-are-bernstein-coefficients-of-rhs-minus-lhs", ca.MX._raw(1, 1, [bern_poly(hi - lo, d, s)]), ca.MX._raw(1, 1, [want]), bernstein=(s, d))
    c.prove(base + ":strictness-preserved", r._op == expr._op)


def algebra_tasks(tier):
    out = []
    D = range(1, 9) if tier == "thorough" else (1, 2, 3, 4, 8)
    pairs = [(p, q) for p in D for q in D if p + q <= (16 if tier == "thorough" else 12)]
    def T(label, fn):
        import re
        m = re.match(r"(.*)\[(\d+)(?:,(\w+))?\]$", label)
        q = m.group(3)
        rp = dict(harness="spline_probe", op=m.group(1), p=int(m.group(2)), q=(int(q) if q and q.isdigit() else (None if q in (None, "None") else q)))
        out.append(Task("C15/algebra/" + label, fn, kind="bounded", replay=rp, functions=["splines.spline:BSpline", "splines.spline:BSplineBasis", "splines.spline:Basis"],
                        bound=dict(degrees="Bernstein operands of the listed degrees", coefficients="symbolic (all values)", tolerance=1e-9)))
    for p, q in pairs:
        for op in ("__add__", "__sub__", "__mul__"):
            T("%s[%d,%d]" % (op, p, q), lambda op=op, p=p, q=q: algebra_op(op, p, q))
        for op in ("__le__", "__ge__"):
            T("%s[%d,%d]" % (op, p, q), lambda op=op, p=p, q=q: algebra_cmp(op, p, q))
    for p in D:
        for op in ("__pow__2", "__neg__", "__mul__number", "__rmul__DM", "__rmul__symbol", "__add__number", "__radd__symbol", "__rsub__number", "derivative"):
            if op == "derivative" and p < 2:
                continue
            T("%s[%d]" % (op, p), lambda op=op, p=p: algebra_op(op, p))
        if p <= 4:
            T("__pow__3[%d]" % p, lambda p=p: algebra_op("__pow__3", p))
        for op in ("__le__", "__ge__", "__lt__", "__gt__", "reflected-le"):
            for q in (None, "number"):
                T("%s[%d,%s]" % (op, p, q), lambda op=op, p=p, q=q: algebra_cmp(op, p, q))
    return out


def lemmas():
    c = ctx()
    a = [z3.Real("a%d" % j) for j in range(5)]
    s = z3.Real("s")
    b = [sum(z3.RealVal(comb(i, j)) / z3.RealVal(comb(4, j)) * a[j] for j in range(i + 1)) for i in range(5)]
    Bi = [z3.RealVal(comb(4, i)) * s ** i * (1 - s) ** (4 - i) if i not in (0, 4) else (s ** 4 if i == 4 else (1 - s) ** 4) for i in range(5)]
    p = a[0] + a[1] * s + a[2] * s * s + a[3] * s ** 3 + a[4] * s ** 4
    c.prove("lemma:bernstein-expansion-reproduces-the-polynomial", sum(b[i] * Bi[i] for i in range(5)) == p)
    c.prove("lemma:bernstein-basis-sums-to-one", sum(Bi) == 1)
    for i in range(5):
        c.prove("lemma:bernstein-basis-nonnegative[%d]" % i, z3.Implies(z3.And(s >= 0, s <= 1), Bi[i] >= 0))
    m = z3.Real("m")
    # convex hull, stated on the expansion: coefficients <= m  =>  polynomial <= m on [0,1]
    w = [z3.Real("w%d" % i) for i in range(5)]
    gap = [z3.Real("gap%d" % i) for i in range(5)]          # gap_i = m - b_i
    c.prove("lemma:convex-combination-bounded-by-max-coefficient",
            z3.Implies(z3.And(*[wi >= 0 for wi in w], *[g >= 0 for g in gap]), sum(w[i] * gap[i] for i in range(5)) >= 0),
            detail="with sum w = 1:  m - sum w_i b_i = sum w_i (m - b_i) >= 0")
    # derivative: d/ds sum b_i B_i^4 = sum 4 (b_{i+1}-b_i) B_i^3
    B3 = [z3.RealVal(comb(3, i)) * s ** i * (1 - s) ** (3 - i) if i not in (0, 3) else (s ** 3 if i == 3 else (1 - s) ** 3) for i in range(4)]
    dp = a[1] + 2 * a[2] * s + 3 * a[3] * s * s + 4 * a[4] * s ** 3
    c.prove("lemma:derivative-coefficients", sum(4 * (b[i + 1] - b[i]) * B3[i] for i in range(4)) == dp)


def other_degrees_rejected(method, kw):
    """schemes whose polynomial is not of degree 4 cannot get the guarantee from the degree-4 matrix: rejected"""
    c = ctx()
    import rockit.sampling_method as sm
    saved = (sm.BSpline, sm.BSplineBasis, sm.reinterpret_expr)
    sm.BSpline, sm.BSplineBasis, sm.reinterpret_expr = SplineStub, BasisStub, reinterpret_stub
    name = "sampling_method:SamplingMethod.add_inf_constraints:raises:polynomial-degree-not-4[%s]" % method
    try:
        spec = Spec(ode=E("f", None, ("x", "u", "t")), N=2, M=1, states=[1, 1], **kw)
        spec.build()
        x = spec.sym["x"][0]
        spec.ocp.subject_to(x <= 1.0, grid="inf")
        try:
            spec.transcribe()
            c.fail(name, "a grid='inf' constraint was transcribed although the scheme's polynomial does not have degree 4")
        except Exception as e:
            c.ok(name, detail="%s: %s" % (type(e).__name__, str(e)[:100]), backend="z3")
    finally:
        sm.BSpline, sm.BSplineBasis, sm.reinterpret_expr = saved


def tasks(tier):
    out = [Task("C15/lemmas", lemmas, kind="proof", note="pure mathematics, discharged by z3 (nonlinear real arithmetic)")]
    grids = [("uniform", dict(kind="uniform"), ("unknown",))] + list(NONUNIFORM)
    for meth, extra in (("MS", dict(intg="rk")), ("SS", dict(intg="rk")), ("DC", dict(degree=4))):
        for (N, M) in ((2, 1), (2, 2), (3, 3)) if tier == "thorough" else ((2, 2),):
            for gname, g, Tk in grids:
                if tier != "thorough" and gname not in ("uniform", "geometric-Tfree", "freegrid"):
                    continue
                inst = "C15/%s-N%d-M%d-%s" % (meth, N, M, gname)
                kw = dict(method=meth, N=N, M=M, grid=dict(g), T=Tk, t0=("unknown",), ode=E("f", None, ("x", "u", "t")), **extra)
                out.append(Task(inst, lambda kw=kw, inst=inst: inf_check(kw, inst), kind="bounded", bound=dict(method=meth, N=N, M=M, grid=g, T=list(Tk)),
                                replay=dict(harness="task_probe", module="contracts.c15", task=inst, tier=tier)))
    out.extend(algebra_tasks(tier))
    for shape in REINTERPRET_SHAPES:
        out.append(Task("C15/reinterpret/" + shape, lambda shape=shape: reinterpret_contract(shape), kind="bounded", replay=dict(harness="reinterpret_probe", shape=shape), functions=["casadi_helpers:reinterpret_expr", "splines.spline:BSpline"],
                        bound=dict(shape=shape, operands="degree-4 / degree-3 Bernstein splines with symbolic coefficients", tolerance=1e-9)))
    out.append(Task("C15/rejected/expl_euler", lambda: other_degrees_rejected("MS-expl_euler", dict(method="MS", intg="expl_euler")), kind="bounded", bound=dict(scheme="expl_euler")))
    out.append(Task("C15/rejected/DC-degree-2", lambda: other_degrees_rejected("DC-degree-2", dict(method="DC", degree=2)), kind="bounded", bound=dict(scheme="collocation degree 2")))
    return out
