"""
C09 (unbounded part): SamplingMethod.add_parameter and SamplingMethod.set_parameter for a SYMBOLIC number N of
control intervals.

   add_parameter : a global parameter gets one solver parameter of its own shape; a per-interval parameter N of them,
                   an include_last one N+1 -- member j of each list is the j-th member of ONE family of fresh solver
                   parameters (so column j can only ever mean interval / node j);
   set_parameter : every global parameter symbol is assigned the user's value; the N (N+1) members of a per-interval
                   parameter are assigned, IN ORDER, the columns of the user's matrix: for all j, member j <- column j.
Together with the add_constraints contracts (C01 / C02: interval k reads member k, node j of an include_last parameter
reads member j) this is the rockit part of "a parametric OCP is the family of OCPs with the values written in"; what
the solver interface does with (symbol, value) pairs is the assumed contract A-OPTI.
"""
import z3
import casadi as ca

from vc.core import ctx, fresh_int, unwrap_int, isolated
from vc.symlist import SymList, vc_len
from vc import loops, contract
from vc.runner import Task
from .backend import unknown
from . import nlp


def parameter_tables():
    from rockit import Ocp, MultipleShooting
    from rockit.direct_method import OptiWrapper
    from rockit.sampling_method import SamplingMethod
    import rockit.sampling_method as sm, rockit.multiple_shooting as msm, rockit.stage as st
    loops.install_builtins(sm, msm, st)
    contract.setup_loops()
    c = ctx()
    N = fresh_int("N")
    c.assume((N >= 1).z)
    ocp = Ocp(T=unknown("horizon_T", positive=True))
    x = ocp.state(); u = ocp.control()
    p = ocp.parameter(2)
    pc = ocp.parameter(grid="control")
    pcp = ocp.parameter(grid="control", include_last=True)
    ocp.set_der(x, u)
    pv = unknown("pv", 2, 1)
    vc_ = z3.Function("pc_value", z3.IntSort(), z3.RealSort())         # the user's matrices: column j
    vcp_ = z3.Function("pcp_value", z3.IntSort(), z3.RealSort())
    zi = lambda j: j.z if hasattr(j, "z") else z3.IntVal(int(j))
    ocp.set_value(p, pv)
    ocp.set_value(pc, ca.LVec(N, lambda j: vc_(zi(j)), row=True))
    ocp.set_value(pcp, ca.LVec(N + 1, lambda j: vcp_(zi(j)), row=True))
    meth = MultipleShooting(N=N, M=1)
    ocp._method = meth
    opti = OptiWrapper(ocp)
    meth.opti = opti
    contract.use_opti(opti)
    QA = "sampling_method:SamplingMethod.add_parameter"
    QS = "sampling_method:SamplingMethod.set_parameter"
    loops.SPECS.clear()
    with loops.patched(SamplingMethod, "add_parameter", QA):
        SamplingMethod.add_parameter(meth, ocp, opti)
    fPc = opti.loop_family(QA + ":comp0", 0, 1, role="p")
    fPcp = opti.loop_family(QA + ":comp1", 0, 1, role="p")
    c.prove(QA + ":ensures:one-solver-parameter-per-global-parameter", len(meth.P) == 1 and ca.MX(meth.P[0]).shape == (2, 1) and ca.MX(meth.P[0]).is_valid_input())
    c.prove(QA + ":ensures:per-interval-parameter-has-N-members", len(meth.P_control) == 1 and vc_len(meth.P_control[0]) == N)
    c.prove(QA + ":ensures:include_last-parameter-has-N+1-members", len(meth.P_control_plus) == 1 and vc_len(meth.P_control_plus[0]) == N + 1)
    j = fresh_int("j")
    c.assume((j >= 0).z)
    c.assume((j < N).z)

    def members():
        for name, get, want in ((":ensures:member-j-of-a-per-interval-parameter-is-the-j-th-fresh-solver-parameter", lambda: meth.P_control[0][j], lambda: fPc(j)),
                                (":ensures:member-j-of-an-include_last-parameter-is-the-j-th-fresh-solver-parameter", lambda: meth.P_control_plus[0][j], lambda: fPcp(j)),
                                (":ensures:final-node-member-of-an-include_last-parameter", lambda: meth.P_control_plus[0][N], lambda: fPcp(N))):
            try:
                got = get()
            except IndexError:
                c.fail(QA + name, "the list has no such member (IndexError)")
                continue
            nlp.prove_equal(QA + name, got, want())
    isolated(members, QA)
    with loops.patched(SamplingMethod, "set_parameter", QS):
        SamplingMethod.set_parameter(meth, ocp, opti)
    P0 = ca.MX(meth.P[0])
    got = ca.DM._raw(2, 1, [opti._pval.get(str(e)) for e in P0.e]) if all(str(e) in opti._pval for e in P0.e) else None
    if got is None:
        c.fail(QS + ":ensures:global-parameter-gets-the-user-value", "no value recorded for the global parameter")
    else:
        nlp.prove_equal(QS + ":ensures:global-parameter-gets-the-user-value", got, pv)
    recs = [r for r in getattr(opti, "_sym_assign", []) if r[0] == "value"]
    c.prove(QS + ":ensures:one-assignment-per-per-interval-parameter", len(recs) == 2, detail="%d symbolic-length assignments" % len(recs))
    if len(recs) != 2:
        return
    for (what, key, val), fam, user, n, nm in ((recs[0], fPc, vc_, N, "per-interval"), (recs[1], fPcp, vcp_, N + 1, "include_last")):
        c.prove(QS + ":ensures:%s-parameter:all-members-assigned" % nm, (key.n == n) and (val.n == n), detail="%s symbols, %s values, expected %s" % (key.n, val.n, n))
        jj = fresh_int("jj")
        c.assume((jj >= 0).z)
        c.assume((jj < n).z)
        def one(key=key, val=val, fam=fam, user=user, jj=jj, nm=nm):
            try:
                kj, vj = key[jj], val[jj]
            except (IndexError, RuntimeError) as e:
                c.fail(QS + ":ensures:%s-parameter:assignment-j-targets-member-j" % nm, "assignment does not reach member j: %s" % e)
                return
            nlp.prove_equal(QS + ":ensures:%s-parameter:assignment-j-targets-member-j" % nm, kj, fam(jj))
            nlp.prove_equal(QS + ":ensures:%s-parameter:member-j-gets-column-j-of-the-user-value" % nm, vj, ca.MX._raw(1, 1, [user(zi(jj))]))
        isolated(one, QS)


def tasks(tier):
    return [Task("C09/proof/add_parameter+set_parameter[N symbolic]", parameter_tables, kind="proof",
                 functions=["sampling_method:SamplingMethod.add_parameter", "sampling_method:SamplingMethod.set_parameter", "stage:Stage.set_value", "stage:Stage._param_value"],
                 bound=dict(N="symbolic (all N>=1)", parameters="global 2-vector, scalar per-interval, scalar include_last", values="symbolic"),
                 replay=dict(harness="nlp_diff_any", families=[["C09", ["MS-"]]], parts=["pvals"], force="pvals"))]
