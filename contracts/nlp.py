"""
Ghost NLP -> atomic rows, and matching against an oracle's rows.

engine back end: rows are z3 terms; equality is discharged by z3 under the path condition.
native back end (replay): rows are evaluated numerically at random points of (x, p).
"""
import time
import casadi as ca
from .backend import MODEL

if MODEL:
    import z3
    from vc.core import ctx, Undecided

    def _is_inf(e, sign):
        if ca.isnum(e):
            return float(e) == sign * float("inf")
        s = z3.simplify(e)
        return s.eq(z3.simplify(ca.INF if sign > 0 else -ca.INF))

    def emitted_rows(opti):
        """atomic rows of the ghost NLP: (kind, residual entry, origin)"""
        rows = []
        for gi, mc in enumerate(opti._g):
            lb, cn, ub = ca.MX(mc.lb), ca.MX(mc.canon), ca.MX(mc.ub)
            n = cn.numel()
            if lb.numel() == 1 and n > 1:
                lb = ca.repmat(lb, cn.rows, cn.cols)
            if ub.numel() == 1 and n > 1:
                ub = ca.repmat(ub, cn.rows, cn.cols)
            for i in range(n):
                l, c, u = lb.e[i], cn.e[i], ub.e[i]
                if ca._same(l, u):
                    rows.append(("eq", ca.e_sub(c, l), (gi, i)))
                    continue
                any_ = False
                if not _is_inf(u, +1):
                    rows.append(("le", ca.e_sub(c, u), (gi, i, "ub")))
                    any_ = True
                if not _is_inf(l, -1):
                    rows.append(("le", ca.e_sub(l, c), (gi, i, "lb")))
                    any_ = True
                if not any_:
                    rows.append(("free", c, (gi, i)))
        return rows

    def oracle_rows(orc):
        rows = []
        for r in orc.rows:
            m = ca.MX(r["r"])
            for i in range(m.numel()):
                rows.append((r["kind"], m.e[i], r["tag"] + (i,)))
        return rows

    def _sig(e):
        if ca.isnum(e):
            return ("num",)
        return tuple(sorted(n for n in ca._consts(e) if not n.startswith("opti")))[:0] + (len(ca._consts(e)) > 0,)

    _EQ_TIMEOUT = 8000

    def _ite_conditions(t):
        """conditions of if-then-else subterms that contain no further if-then-else"""
        out, stack, seen = {}, [t], set()
        while stack:
            x = stack.pop()
            if x.get_id() in seen:
                continue
            seen.add(x.get_id())
            if z3.is_app_of(x, z3.Z3_OP_ITE):
                cond = x.arg(0)
                if not _has_ite(cond):
                    out[cond.get_id()] = cond
            stack.extend(x.children())
        return list(out.values())

    _HAS_ITE = {}

    def _has_ite(t):
        key = t.get_id()
        if key in _HAS_ITE:
            return _HAS_ITE[key][1]
        r = z3.is_app_of(t, z3.Z3_OP_ITE) or any(_has_ite(ch) for ch in t.children())
        _HAS_ITE[key] = (t, r)
        return r

    def resolve_ites(c, t, rounds=12):
        """decide if-then-else conditions that the path condition settles (index look-ups of sampler)"""
        for _ in range(rounds):
            if not _has_ite(t):
                break
            conds = _ite_conditions(t)
            pairs = []
            for cond in conds:
                for val, neg in ((True, z3.Not(cond)), (False, cond)):
                    c.solver.push()
                    try:
                        c.solver.set("timeout", 3000)
                        c.solver.add(neg)
                        r = c.solver.check()
                    finally:
                        c.solver.pop()
                    if r == z3.unsat:
                        pairs.append((cond, z3.BoolVal(val)))
                        break
            if not pairs:
                break
            t = z3.simplify(z3.substitute(t, *pairs))
        return t

    HOW = {"solver": 0}

    def equal_terms(a, b):
        """True / False(model) / None(unknown) : a == b under the current path condition.
        Most equalities are settled by normal forms (hash-consed terms after substitution of the learnt
        index equalities and recurrences); the rest goes to z3 (HOW['solver'] counts those)."""
        if ca._same(a, b):
            return True, None
        ta, tb = ca.tz(a), ca.tz(b)
        c = ctx()
        if _has_ite(ta) or _has_ite(tb):
            ta, tb = resolve_ites(c, ta), resolve_ites(c, tb)
            if ta.eq(tb):
                return True, None
        if c.subst:
            ta, tb = z3.simplify(c.normalize(ta)), z3.simplify(c.normalize(tb))
            if ta.eq(tb):
                return True, None
        if not ta.eq(tb) and _implied_index_equalities(c, ta, tb):
            ta, tb = z3.simplify(c.normalize(ta)), z3.simplify(c.normalize(tb))
            if ta.eq(tb):
                return True, None
        if len(ta.sexpr()) < 4000:
            d = z3.simplify(ta - tb, som=True)
        else:
            d = z3.simplify(ta - tb)
        if z3.is_rational_value(d) and d.numerator_as_long() == 0:
            return True, None
        c = ctx()
        from . import numfilter
        if numfilter.distinct(c, ta, tb):
            return False, None          # an exact counter-model of ta == tb that satisfies the path condition (contracts/numfilter.py)
        HOW["solver"] += 1
        c.solver.push()
        try:
            c.solver.set("timeout", _EQ_TIMEOUT)
            c.solver.add(ta != tb)
            r = c.solver.check()
            if r == z3.unsat:
                return True, None
            if r == z3.sat:
                return False, c.solver.model()
            return None, None
        finally:
            c.solver.pop()

    def _int_args(t, limit=4000):
        """integer-sorted argument terms of applications and integer variables inside t"""
        args, ivars, stack, seen = {}, {}, [t], set()
        while stack and len(seen) < limit:
            x = stack.pop()
            if x.get_id() in seen:
                continue
            seen.add(x.get_id())
            if x.sort() == z3.IntSort():
                args[x.get_id()] = x
                for v in _int_vars(x):
                    ivars[v.get_id()] = v
                continue
            stack.extend(x.children())
        return list(args.values()), list(ivars.values())

    def _int_vars(t):
        out, stack, seen = [], [t], set()
        while stack:
            x = stack.pop()
            if x.get_id() in seen:
                continue
            seen.add(x.get_id())
            if z3.is_const(x) and x.decl().kind() == z3.Z3_OP_UNINTERPRETED:
                out.append(x)
            stack.extend(x.children())
        return out

    def _implied_index_equalities(c, ta, tb):
        """integer index terms that the path condition pins to an index term of the other side
        (j == k from k <= j < k+1;  (2k+1) div 2 == k) are rewritten, so that the big real-valued
        terms become syntactically equal and never reach the nonlinear solver"""
        aa, _ = _int_args(ta)
        ab, _ = _int_args(tb)
        ids_a = {x.get_id() for x in aa}
        ids_b = {x.get_id() for x in ab}
        learnt = False
        for side, other in ((aa, ab), (ab, aa)):
            oid = {x.get_id() for x in other}
            for a in side:
                if a.get_id() in oid or z3.is_int_value(a):
                    continue
                cands = [b for b in other if b.get_id() != a.get_id()]
                # also try the variables occurring in a itself (e.g. (2k+1) div 2 == k) and 0
                cands += [v for v in _int_vars(a) if not v.eq(a)] + [z3.IntVal(0)]
                for cand in cands:
                    if len(cand.sexpr()) > len(a.sexpr()) and a.get_id() in ids_a and cand.get_id() in ids_a:
                        continue
                    c.solver.push()
                    try:
                        c.solver.set("timeout", 3000)
                        c.solver.add(a != cand)
                        r = c.solver.check()
                    finally:
                        c.solver.pop()
                    if r == z3.unsat:
                        c.subst.append((a, cand))
                        learnt = True
                        break
        return learnt

    def quick_differs(a, b, consts_cache={}):
        """cheap necessary condition for equality: same set of uninterpreted symbols after
        simplification - used only to order candidates, never to decide"""
        return ca._consts(a) != ca._consts(b) if not (ca.isnum(a) or ca.isnum(b)) else False

    def match_rows(name, emitted, expected, prove_extra=True):
        """multiset matching.  Records one obligation per expected row (named name:<tag>) and
        one frame obligation for rows that were emitted but are not expected."""
        c = ctx()
        used = [False] * len(emitted)
        missing = []
        for kind, r, tag in expected:
            cand = [i for i, (k2, r2, _) in enumerate(emitted) if not used[i] and k2 == kind]
            cand.sort(key=lambda i: quick_differs(emitted[i][1], r))
            found = None
            unknown = False
            t0 = time.time()
            s0 = HOW["solver"]
            for i in cand:
                ok, _ = equal_terms(emitted[i][1], r)
                if ok:
                    found = i
                    break
                if ok is None:
                    unknown = True
            oname = "%s:%s" % (name, _tagstr(tag))
            if found is not None:
                used[found] = True
                c.obligations.append(_ob(oname, "discharged", time.time() - t0, "row #%s of the emitted NLP" % (emitted[found][2],), solver_calls=HOW["solver"] - s0))
            elif unknown:
                c.obligations.append(_ob(oname, "unknown", time.time() - t0, "no emitted row proved equal; some comparisons undecided"))
            else:
                c.obligations.append(_ob(oname, "refuted", time.time() - t0,
                                         "expected row %s (%s): no emitted row is identically equal; expected residual %s" % (_tagstr(tag), kind, ca._short(r))))
                missing.append(tag)
        extra = [emitted[i] for i in range(len(emitted)) if not used[i]]
        any_unknown = any(o.status == "unknown" for o in c.obligations[-len(expected):]) if expected else False
        if prove_extra:
            oname = "%s:frame:nothing-else" % name
            if extra and any_unknown:
                c.obligations.append(_ob(oname, "unknown", 0.0, "some expected rows are undecided, so the unmatched emitted rows cannot be judged"))
            elif extra:
                c.obligations.append(_ob(oname, "refuted", 0.0, "emitted rows that no declaration accounts for: " +
                                         "; ".join("%s %s" % (k, ca._short(r)) for k, r, _ in extra[:4]) + (" ..." if len(extra) > 4 else "")))
            else:
                c.obligations.append(_ob(oname, "discharged", 0.0, "%d emitted atomic rows all matched" % len(emitted)))
        return missing, extra

    def _ob(name, status, t, detail, solver_calls=None):
        from vc.core import Obligation
        ob = Obligation(name, status, time_s=t, detail=detail, path=list(ctx().trace))
        if solver_calls is not None:
            ob.backend = "z3" if solver_calls else "normal-form"
        return ob

    def _tagstr(tag):
        return "/".join(str(t) for t in tag)

    def prove_equal(name, a, b, detail=None):
        """obligation: matrices a and b are identically equal"""
        a, b = ca._coerce(a), ca._coerce(b)
        c = ctx()
        t0 = time.time()
        if a.shape != b.shape:
            c.obligations.append(_ob(name, "refuted", 0.0, "shape %s vs expected %s" % (a.shape, b.shape)))
            return False
        worst = True
        info = None
        s0 = HOW["solver"]
        for i, (x, y) in enumerate(zip(a.e, b.e)):
            ok, model = equal_terms(x, y)
            if ok is False:
                worst = False
                info = "entry %d: got %s, expected %s" % (i, ca._short(x), ca._short(y))
                break
            if ok is None:
                worst = None
                info = "entry %d undecided" % i
        st = {True: "discharged", False: "refuted", None: "unknown"}[worst]
        c.obligations.append(_ob(name, st, time.time() - t0, info or detail, solver_calls=HOW["solver"] - s0))
        return worst is True

    def _poly(t, cache):
        """z3 real term -> {monomial: Fraction} (monomial = sorted tuple of (atom id, exponent)); None when t is not a
        polynomial with rational coefficients over its atoms (symbols / applications of uninterpreted functions)"""
        from fractions import Fraction
        key = t.get_id()
        if key in cache:
            return cache[key]
        def mul(p, q):
            out = {}
            for m1, c1 in p.items():
                for m2, c2 in q.items():
                    d = dict(m1)
                    for a_, e_ in m2:
                        d[a_] = d.get(a_, 0) + e_
                    m = tuple(sorted(d.items()))
                    out[m] = out.get(m, 0) + c1 * c2
            return {m: c for m, c in out.items() if c != 0}
        def add(p, q, sign=1):
            out = dict(p)
            for m, c in q.items():
                out[m] = out.get(m, 0) + sign * c
            return {m: c for m, c in out.items() if c != 0}
        r = None
        if z3.is_rational_value(t):
            v = Fraction(t.numerator_as_long(), t.denominator_as_long())
            r = {(): v} if v != 0 else {}
        elif z3.is_algebraic_value(t):
            r = None
        elif z3.is_app(t):
            k = t.decl().kind()
            ch = t.children()
            if k == z3.Z3_OP_UNINTERPRETED:
                r = {((key, 1),): Fraction(1)}
            elif k == z3.Z3_OP_TO_REAL:
                r = {((key, 1),): Fraction(1)}
            elif k in (z3.Z3_OP_ADD, z3.Z3_OP_SUB, z3.Z3_OP_MUL):
                ps = [_poly(c_, cache) for c_ in ch]
                if all(p_ is not None for p_ in ps):
                    r = ps[0]
                    for p_ in ps[1:]:
                        r = add(r, p_) if k == z3.Z3_OP_ADD else add(r, p_, -1) if k == z3.Z3_OP_SUB else mul(r, p_)
            elif k == z3.Z3_OP_UMINUS:
                p_ = _poly(ch[0], cache)
                r = None if p_ is None else {m: -c for m, c in p_.items()}
            elif k == z3.Z3_OP_POWER and z3.is_rational_value(ch[1]) and ch[1].denominator_as_long() == 1 and 0 <= ch[1].numerator_as_long() <= 64:
                p_ = _poly(ch[0], cache)
                if p_ is not None:
                    r = {(): Fraction(1)}
                    for _ in range(ch[1].numerator_as_long()):
                        r = mul(r, p_)
            elif k == z3.Z3_OP_DIV and z3.is_rational_value(ch[1]) and ch[1].numerator_as_long() != 0:
                p_ = _poly(ch[0], cache)
                q = Fraction(ch[1].numerator_as_long(), ch[1].denominator_as_long())
                r = None if p_ is None else {m: c / q for m, c in p_.items()}
        cache[key] = r
        return r

    def _monomial_coeffs(d):
        p = _poly(d, {})
        return None if p is None else list(p.values())

    def _bernstein_coeffs(poly, sid, d):
        """coefficients, in the degree-d Bernstein basis in the atom with id `sid`, of every (other-atoms) monomial of poly"""
        from fractions import Fraction
        from math import comb
        groups = {}
        for m, c in poly.items():
            j = dict(m).get(sid, 0)
            rest = tuple(x for x in m if x[0] != sid)
            groups.setdefault(rest, {})[j] = c
        out = []
        for rest, aj in groups.items():
            if max(aj) > d:
                return None
            for i in range(d + 1):
                out.append(sum((Fraction(comb(i, j), comb(d, j)) * c for j, c in aj.items() if j <= i), Fraction(0)))
        return out

    def prove_close(name, a, b, tol=1e-9, bernstein=None):
        """obligation for tables of IRRATIONAL numbers held in doubles (Gauss-Legendre nodes and what is computed from
        them): a - b, in sum-of-monomials normal form, has every coefficient below `tol` in absolute value.
        Discharged = identical up to the rounding of the table; a coefficient above tol refutes it (the difference is a
        non-zero polynomial in independent atoms)."""
        a, b = ca._coerce(a), ca._coerce(b)
        c = ctx()
        t0 = time.time()
        if a.shape != b.shape:
            c.obligations.append(_ob(name, "refuted", 0.0, "shape %s vs expected %s" % (a.shape, b.shape)))
            return False
        worst, info = True, None
        for i, (x, y) in enumerate(zip(a.e, b.e)):
            d = (c.normalize(ca.tz(x)) - c.normalize(ca.tz(y))) if c.subst else (ca.tz(x) - ca.tz(y))
            if bernstein is None:
                co = _monomial_coeffs(d)
            else:
                # polynomial in the variable bernstein[0]: measure the difference in the (well conditioned) Bernstein
                # basis of degree bernstein[1] instead of the monomial basis
                pl = _poly(d, {})
                co = None if pl is None else _bernstein_coeffs(pl, bernstein[0].get_id(), bernstein[1])
            if co is None:
                worst, info = (None if worst is not False else worst), "entry %d: difference is not a polynomial in normal form" % i
                continue
            big = max([abs(v) for v in co] or [0])
            if big > tol:
                worst, info = False, "entry %d: largest coefficient of the difference %.3g; got %s, expected %s" % (i, float(big), ca._short(x), ca._short(y))
                break
        st = {True: "discharged", False: "refuted", None: "unknown"}[worst]
        ob = _ob(name, st, time.time() - t0, info or "coefficients of the difference all below %g" % tol)
        ob.backend = "normal-form+tolerance"
        c.obligations.append(ob)
        return worst is True

    def assume_nonzero(expr):
        """the statement is about non-degenerate grids: expr != 0 is added to the path condition"""
        ctx().assume(ca.tz(ca._coerce(expr).e[0]) != 0)

    def assume_positive(expr):
        ctx().assume(ca.tz(ca._coerce(expr).e[0]) > 0)

else:
    import numpy as np

    def _values_for(syms, point):
        import hashlib
        vals = []
        for s_ in syms:
            h = hashlib.sha256(("%s/%d" % (s_.name(), point)).encode()).digest()
            rs = np.random.RandomState(int.from_bytes(h[:4], "little"))
            vals.append(rs.uniform(0.3, 1.4, size=s_.shape))
        return vals

    def _eval_pair(a, b, npoints=2):
        a, b = ca.MX(a), ca.MX(b)
        syms = ca.symvar(ca.veccat(ca.vec(a), ca.vec(b)))
        F = ca.Function("F", syms, [a, b])
        out = []
        for q in range(npoints):
            vals = _values_for(syms, q)
            r = F.call(vals)
            out.append((np.array(r[0]), np.array(r[1]), dict((s_.name(), np.array(v).reshape(-1).tolist()) for s_, v in zip(syms, vals))))
        return out

    def prove_equal(name, a, b, detail=None, tol=1e-7):
        """native replay of an equality obligation: both sides evaluated at random values of every symbol"""
        from vc.core import ctx, Obligation
        c = ctx()
        a, b = ca.MX(a), ca.MX(b)
        if a.shape != b.shape:
            c.obligations.append(Obligation(name, "refuted", "shape %s vs expected %s" % (a.shape, b.shape)))
            return False
        for ga, gb, point in _eval_pair(a, b):
            if not np.allclose(ga, gb, rtol=tol, atol=tol, equal_nan=True):
                c.obligations.append(Obligation(name, "refuted", dict(observed=ga.reshape(-1).tolist()[:12], expected=gb.reshape(-1).tolist()[:12],
                                                                        at={k: v[:6] for k, v in list(point.items())[:12]})))
                return False
        c.obligations.append(Obligation(name, "discharged", detail))
        return True

    def prove_close(name, a, b, tol=1e-9, bernstein=None):
        return prove_equal(name, a, b, tol=1e-7)

    def assume_nonzero(expr):
        pass

    def assume_positive(expr):
        pass

    def numeric_rows(opti, orc, npoints=3, seed=0, extra_out=()):
        """evaluate rockit's NLP rows and the oracle's rows at random (x, p)"""
        rs = np.random.RandomState(seed)
        x, p = opti.x, opti.p
        exp = [ca.MX(r["r"]) for r in orc.rows]
        F = ca.Function("F", [x, p], [opti.g, opti.lbg, opti.ubg, ca.veccat(*exp) if exp else ca.MX(0, 1), opti.f, ca.MX(orc.J)] + list(extra_out))
        pts = []
        for _ in range(npoints):
            xv = rs.uniform(0.2, 1.5, size=x.numel())
            pv = np.array(opti.debug.value(p, opti.value_parameters() if hasattr(opti, "value_parameters") else [])).reshape(-1) if p.numel() else np.zeros(0)
            out = F(xv, pv)
            pts.append([np.array(o).reshape(-1) for o in out])
        return pts

    def atomic_numeric(g, lbg, ubg):
        rows = []
        for i in range(len(g)):
            if lbg[i] == ubg[i]:
                rows.append(("eq", g[i] - lbg[i]))
            else:
                if np.isfinite(ubg[i]):
                    rows.append(("le", g[i] - ubg[i]))
                if np.isfinite(lbg[i]):
                    rows.append(("le", lbg[i] - g[i]))
        return rows
