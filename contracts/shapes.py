"""constraint shapes for the grid='inf' contracts (shared by the engine and the native replay)"""
REINTERPRET_SHAPES = {
    "x+c*dx<=w": lambda X0, X1, D0, W: X0 + 0.5 * D0 <= W,
    "x1*x0<=c": lambda X0, X1, D0, W: X1 * X0 <= 2.0,
    "x1*x0+x0<=c": lambda X0, X1, D0, W: X1 * X0 + X0 <= 2.0,
    "x0+x1*x0<=c": lambda X0, X1, D0, W: X0 + X1 * X0 <= 2.0,
    "x1-x0^2<=w": lambda X0, X1, D0, W: X1 - X0 ** 2 <= W,
    "-x0>=c": lambda X0, X1, D0, W: -X0 >= -3.0,
    "2x0-x1<=x0*x1": lambda X0, X1, D0, W: 2 * X0 - X1 <= X0 * X1,
    "c<=x0": lambda X0, X1, D0, W: 1.0 <= X0,
    "x0*dx0<=x1": lambda X0, X1, D0, W: X0 * D0 <= X1,
    "x0<w*x1": lambda X0, X1, D0, W: X0 < W * X1,
    "(x0-x1)^2<=c": lambda X0, X1, D0, W: (X0 - X1) ** 2 <= 4.0,
}
