"""
C13: the transcription depends only on the final specification, not on its history.

What contracts can carry of a whole-history property (DESIGN.md section 7, C13):
  structural obligations (AST of the current source)
     * invalidate-or-reapply: every public method of Stage/Ocp that writes a specification field
       calls _set_transcribed(False) on that path, or is one of the two re-applying methods
       (set_value, set_initial), which must then ALSO record the change in the specification;
     * clean-is-complete: every attribute a method class assigns during transcription is
       (re)assigned by its clean();
     * re-transcription starts clean: Ocp._transcribe cleans the (shared) method state first.
  bounded history obligations (real code on the casadi model): for a catalogue of histories
     (declare / query / change / query again) the ghost NLP, starting point, parameter values and
     solver settings equal those of a freshly written OCP with the final specification, modulo the
     numbering of Opti symbols; querying twice does not re-transcribe; the user's declaration is
     not altered by transcribing.
"""
import ast
import os

import z3
import casadi as ca

from vc.core import ctx
from vc.runner import Task
from . import nlp
from .backend import ufun, unknown

SPEC_FIELDS = {"states", "qstates", "controls", "algebraics", "parameters", "variables", "_signals", "_param_vals", "_state_der",
               "_scale_der", "_state_next", "_alg", "_constraints", "_objective", "_initial", "_T", "_t0", "_method", "_stages",
               "_scale", "_catalog", "_inf_inert", "_inf_der", "_offsets", "_placeholders", "_meta"}
# symbol tables that only grow under fresh keys (a new symbol cannot occur in anything transcribed before)
FRESH_KEY_TABLES = {"_offsets", "_placeholders", "_inf_inert", "_inf_der", "_meta", "_scale", "_catalog"}
REAPPLY = {"set_value", "set_initial"}


def _writes(fn):
    """specification fields written through `self` in a function body"""
    out = set()
    for n in ast.walk(fn):
        tgt = None
        if isinstance(n, (ast.Assign, ast.AugAssign)):
            tgts = n.targets if isinstance(n, ast.Assign) else [n.target]
            for t in tgts:
                for s in ast.walk(t):
                    if isinstance(s, ast.Attribute) and isinstance(s.value, ast.Name) and s.value.id == "self":
                        out.add(s.attr)
        if isinstance(n, ast.Call) and isinstance(n.func, ast.Attribute) and n.func.attr in ("append", "extend", "insert", "pop", "clear", "update", "move_to_end", "setdefault"):
            v = n.func.value
            while isinstance(v, (ast.Subscript,)):
                v = v.value
            if isinstance(v, ast.Attribute) and isinstance(v.value, ast.Name) and v.value.id == "self":
                out.add(v.attr)
    return out


def _calls(fn, name):
    for n in ast.walk(fn):
        if isinstance(n, ast.Call) and isinstance(n.func, ast.Attribute) and n.func.attr == name:
            return True
    return False


def _invalidates(fn):
    for n in ast.walk(fn):
        if isinstance(n, ast.Call) and isinstance(n.func, ast.Attribute) and n.func.attr == "_set_transcribed":
            if n.args and isinstance(n.args[0], ast.Constant) and n.args[0].value is False:
                return True
    return False


def structural():
    c = ctx()
    repo = os.environ.get("VERIF_REPO", "/repo")
    trees = {}
    for mod in ("stage", "ocp", "sampling_method", "direct_method", "direct_collocation", "multiple_shooting", "single_shooting"):
        trees[mod] = ast.parse(open(os.path.join(repo, "rockit", mod + ".py")).read())
    classes = {}
    for mod, t in trees.items():
        for n in t.body:
            if isinstance(n, ast.ClassDef):
                classes[n.name] = (mod, n)
    # delegating helpers: a public method that only calls another public mutator inherits its discipline
    for cname in ("Stage", "Ocp"):
        mod, cls = classes[cname]
        methods = {f.name: f for f in cls.body if isinstance(f, ast.FunctionDef)}
        for name, fn in methods.items():
            if name.startswith("_"):
                continue
            is_prop = any(isinstance(d, ast.Name) and d.id == "property" for d in fn.decorator_list)
            w = (_writes(fn) & SPEC_FIELDS) - FRESH_KEY_TABLES
            ob = "%s:%s.%s:ensures:invalidate-or-reapply" % (mod, cname, name)
            if not w:
                # methods that change the specification only through the method object
                if name in ("solver", "callback") and cname == "Ocp":
                    (c.ok if _invalidates(fn) else lambda n_, d=None: c.fail(n_, "changes solver settings that are applied at transcription but does not invalidate it"))(ob)
                continue
            if is_prop:
                continue
            if _invalidates(fn):
                c.ok(ob, detail="writes %s; invalidates" % sorted(w))
            elif name in REAPPLY:
                # re-applies to the live transcription; must record in the specification as well
                rec = "_param_vals" in _writes(fn) if name == "set_value" else "_initial" in _writes(fn)
                nwrites_ok = rec
                # set_value has two branches (transcribed / not): both must write _param_vals
                if name == "set_value":
                    inner = [f for f in ast.walk(fn) if isinstance(f, ast.FunctionDef) and f is not fn]
                    nwrites_ok = all("_param_vals" in _writes(f) for f in inner) and len(inner) >= 1
                (c.ok if nwrites_ok else lambda n_, d=None: c.fail(n_, "re-applies to the live transcription without recording the change in the specification on every path"))(ob)
            else:
                c.fail(ob, "writes specification field(s) %s but neither invalidates the transcription nor re-applies the change" % sorted(w))
    # clean-is-complete for the method classes
    for cname in ("SamplingMethod", "DirectCollocation", "MultipleShooting", "SingleShooting"):
        mod, cls = classes[cname]
        chain = [cname]
        methods = {}
        cur = cname
        while cur in classes:
            m_, cl = classes[cur]
            for f in cl.body:
                if isinstance(f, ast.FunctionDef):
                    methods.setdefault(f.name, []).append((cur, f))
            bases = [b.id for b in cl.bases if isinstance(b, ast.Name)]
            cur = bases[0] if bases else None
        cleaned = set()
        for owner, f in methods.get("clean", []):
            cleaned |= _writes(f)
        transcription_time = ("add_variables", "add_variables_V", "add_variables_V_control", "add_variables_V_control_finalize", "add_parameter",
                              "add_parameter_signals", "add_constraints", "transcribe", "add_objective", "add_parameters")
        assigned = {}
        for mname in transcription_time:
            for owner, f in methods.get(mname, [])[:1]:
                for a in _writes(f):
                    assigned.setdefault(a, mname)
        # attributes (re)assigned from scratch on every transcription need no cleaning
        fresh = set()
        for mname in transcription_time:
            for owner, f in methods.get(mname, [])[:1]:
                for n in ast.walk(f):
                    if isinstance(n, ast.Assign):
                        for t in n.targets:
                            if isinstance(t, ast.Attribute) and isinstance(t.value, ast.Name) and t.value.id == "self":
                                fresh.add(t.attr)
        accum = set()
        for mname in transcription_time:
            for owner, f in methods.get(mname, [])[:1]:
                for n in ast.walk(f):
                    if isinstance(n, ast.Call) and isinstance(n.func, ast.Attribute) and n.func.attr in ("append", "extend"):
                        v = n.func.value
                        while isinstance(v, ast.Subscript):
                            v = v.value
                        if isinstance(v, ast.Attribute) and isinstance(v.value, ast.Name) and v.value.id == "self":
                            accum.add(v.attr)
        for a in sorted(accum):
            ob = "%s:%s.clean:ensures:resets[%s]" % (mod, cname, a)
            # an accumulating attribute must be reset by clean() (or be assigned afresh before accumulating)
            if a in cleaned:
                c.ok(ob)
            elif a in fresh:
                c.ok(ob, detail="assigned afresh during transcription")
            else:
                c.fail(ob, "attribute self.%s accumulates during transcription (%s) but clean() does not reset it" % (a, assigned.get(a)))
    # the invalidation flag lives on the master (it is only ever read there)
    mod, cls = classes["Stage"]
    st = next(f for f in cls.body if isinstance(f, ast.FunctionDef) and f.name == "_set_transcribed")
    ok = False
    for n in ast.walk(st):
        if isinstance(n, ast.Assign):
            for t in n.targets:
                if isinstance(t, ast.Attribute) and t.attr == "_var_is_transcribed" and isinstance(t.value, ast.Attribute) and t.value.attr == "master":
                    ok = True
    (c.ok if ok else lambda n_, **k: c.fail(n_, "the flag is not written on self.master, where is_transcribed reads it"))("stage:Stage._set_transcribed:ensures:writes-the-master-flag")
    # re-transcription starts clean
    mod, cls = classes["Ocp"]
    tr = next(f for f in cls.body if isinstance(f, ast.FunctionDef) and f.name == "_transcribe")
    ob = "ocp:Ocp._transcribe:ensures:starts-from-clean-method-state"
    if _calls(tr, "_untranscribe_recurse") or _calls(tr, "_untranscribe"):
        c.ok(ob)
    else:
        c.fail(ob, "the shared method objects are not cleaned before a re-transcription")


# ---------------------------------------------------------------------------------------
# histories
# ---------------------------------------------------------------------------------------
def signature(ocp):
    """canonical description of the transcribed problem (Opti symbols renamed by creation order)"""
    aug = ocp._augmented
    opti = aug._method.opti
    pairs = []
    for kind, lst in (("V", opti._vars), ("P", opti._pars)):
        for i, s in enumerate(lst):
            for j, x in enumerate(s.e):
                pairs.append((x, z3.Real("%s%d_%d" % (kind, i, j))))
    def ren(e):
        if ca.isnum(e):
            return e
        return z3.substitute(e, *pairs) if pairs else e
    rows = [(k, ren(r)) for k, r, _ in nlp.emitted_rows(opti)]
    f = ren(ca.MX(opti.f).e[0]) if ca.MX(opti.f).numel() else 0.0
    init = [ren(opti._init[x.decl().name()]) for s in opti._vars for x in s.e]
    pval = [ren(opti._pval[x.decl().name()]) for s in opti._pars for x in s.e]
    shapes = [s.shape for s in opti._vars], [s.shape for s in opti._pars]
    return dict(rows=rows, f=f, init=init, pval=pval, solver=opti._solver, shapes=shapes)


def compare_signatures(name, a, b):
    c = ctx()
    if a["shapes"] != b["shapes"]:
        c.fail(name + ":variables", "decision variables / parameters differ: %s vs fresh %s" % (a["shapes"], b["shapes"]))
        return
    c.ok(name + ":variables", backend="z3")
    if len(a["rows"]) != len(b["rows"]):
        c.fail(name + ":rows", "%d constraint rows vs %d in the fresh OCP" % (len(a["rows"]), len(b["rows"])))
    else:
        bad = None
        for i, ((k1, r1), (k2, r2)) in enumerate(zip(a["rows"], b["rows"])):
            ok, _ = nlp.equal_terms(r1, r2) if k1 == k2 else (False, None)
            if not ok:
                bad = (i, k1, r1, k2, r2, ok)
                break
        if bad is None:
            c.ok(name + ":rows", detail="%d rows identical" % len(a["rows"]), backend="z3")
        elif bad[5] is None:
            c.unknown(name + ":rows", "row %d undecided" % bad[0])
        else:
            c.fail(name + ":rows", "row %d differs: %s %s vs fresh %s %s" % (bad[0], bad[1], ca._short(bad[2]), bad[3], ca._short(bad[4])))
    ok, _ = nlp.equal_terms(a["f"], b["f"])
    (c.ok if ok else lambda n_, **k: c.fail(n_, "objective differs from the fresh OCP's"))(name + ":objective", backend="z3")
    for key in ("init", "pval"):
        bad = [i for i, (x, y) in enumerate(zip(a[key], b[key])) if not nlp.equal_terms(x, y)[0] and not (ca.isnum(x) and ca.isnum(y) and x != x and y != y)]
        if bad:
            c.fail(name + ":" + key, "%s entry %d: %s vs fresh %s" % ("starting value" if key == "init" else "parameter value", bad[0], ca._short(a[key][bad[0]]), ca._short(b[key][bad[0]])))
        else:
            c.ok(name + ":" + key, backend="z3")
    if a["solver"] != b["solver"]:
        c.fail(name + ":solver", "solver settings %r vs fresh %r" % (a["solver"], b["solver"]))
    else:
        c.ok(name + ":solver", backend="z3")


from .histories import histories, _base


def history_task(hname, method, prop="C13"):
    def fn():
        c = ctx()
        h = histories()[hname]
        a, b = h(method)
        # the user's declaration must survive transcription unchanged
        before = (len(a.states), len(a.controls), sum(len(v) for v in a._constraints.values()), id(a._T), len(a._initial))
        a._transcribed
        after = (len(a.states), len(a.controls), sum(len(v) for v in a._constraints.values()), id(a._T), len(a._initial))
        name = "%s/%s/%s|ocp:Ocp._transcribed" % (prop, hname, method)
        (c.ok if before == after else lambda n_, **k: c.fail(n_, "transcribing changed the declaration: %s -> %s" % (before, after)))(name + ":frame:declaration-unchanged")
        b._transcribed
        compare_signatures("%s/%s/%s|ocp:Ocp._transcribe:ensures:same-as-fresh" % (prop, hname, method), signature(a), signature(b))
    return fn


def history_tasks_for(prop, select, tier):
    """the histories whose name satisfies `select`, listed under another property (a declaration made on a stage of a
    multi-stage problem after a first transcription must reach the NLP just like one made before it)"""
    out = []
    for hname in histories():
        if not select(hname):
            continue
        for m in (("MS", "SS", "DC") if tier == "thorough" else ("MS", "DC")):
            out.append(Task("%s/%s/%s" % (prop, hname, m), history_task(hname, m, prop), kind="bounded", bound=dict(history=hname, method=m, N=2),
                            replay=dict(harness="history_diff", history=hname, method=m)))
    return out


def tasks(tier):
    out = [Task("C13/structural", structural, kind="structural", note="AST scan of the current source")]
    methods = ("MS", "SS", "DC") if tier == "thorough" else ("MS", "DC")
    for hname in histories():
        for m in methods:
            out.append(Task("C13/%s/%s" % (hname, m), history_task(hname, m), kind="bounded", bound=dict(history=hname, method=m, N=2),
                            replay=dict(harness="history_diff", history=hname, method=m)))
    return out
