"""
C06 (unbounded part): the time grid for a SYMBOLIC number N of control intervals.

  GeometricGrid.normalized(N)      loops cut by invariants over the spec functions P(j)=g^j, S(j)=sum_{i<j} P(i):
                                   n_0 = 0, n_N = 1, n_{j+2}-n_{j+1} = g (n_{j+1}-n_j), strictly increasing
  GeometricGrid.growth_factor(N)   local: g ; global and N>1: g^(1/(N-1))  (so that last/first = g, A-REALPOW)
  UniformGrid.normalized(N)        n_k = k/N
  Grid.__call__ (uniform)          t_k = t0 + k T/N ; t_0 = t0 ; t_N = t0+T ; increasing for T>0
  GeometricGrid/FunctionGrid call  t_k = t0 + T n_k    (callee `normalized` by its CONTRACT, not its body)
  SamplingMethod.transcribe        integrator grid: interval k split into M equal steps, the last one closed
  SamplingMethod.get_DT_at / get_DT_control_at   (t_{k+1}-t_k)/M resp. t_{k+1}-t_k on every branch (k symbolic, k=-1, k=N)
"""
import z3
import casadi as ca

from vc.core import ctx, SymInt, SymReal, SymBool, fresh_int, unwrap_int, isolated
from vc.symlist import SymList, vc_len
from vc import loops, contract
from vc.runner import Task
from .backend import unknown
from . import nlp


def _setup():
    import rockit.sampling_method as sm
    loops.install_builtins(sm)
    contract.setup_loops()
    return sm


def geometric_normalized(local):
    sm = _setup()
    from rockit.sampling_method import GeometricGrid
    c = ctx()
    N = fresh_int("N")
    c.assume((N >= 1).z)
    g = SymReal(z3.Real("growth"))
    c.assume(g.z >= 1)
    grid = GeometricGrid(1.0, local=True)       # constructor asserts growth_factor >= 1 on a number
    grid._growth_factor = g
    grid.local = local
    QUAL = "sampling_method:GeometricGrid.normalized"
    P = z3.Function("Pow", z3.IntSort(), z3.RealSort())      # P(j) = ge^j
    S = z3.Function("Sum", z3.IntSort(), z3.RealSort())      # S(j) = sum_{i<j} P(i)
    # effective ratio used by the loop
    ge = grid.growth_factor(N)
    gez = ge.z if isinstance(ge, SymReal) else z3.RealVal(ge)
    if local:
        c.prove("sampling_method:GeometricGrid.growth_factor:ensures:local-ratio-is-growth-factor", gez == g.z)
    else:
        from vc.core import RPOW, _zr
        if N > 1:
            c.prove("sampling_method:GeometricGrid.growth_factor:ensures:global-ratio-is-the-(N-1)th-root", gez == RPOW(g.z, 1 / (_zr(N) - 1)))
            c.assume(gez >= 1, "A-REALPOW: a >= 1 implies a^(1/m) >= 1")
        else:
            c.prove("sampling_method:GeometricGrid.growth_factor:ensures:single-interval", gez == g.z)

    def kz(k):
        k = unwrap_int(k)
        return k.z if isinstance(k, SymInt) else z3.IntVal(int(k))

    def Sv(j): return SymReal(S(kz(j)))
    def Pv(j): return SymReal(P(kz(j)))
    c.assume(S(0) == 0)
    c.assume(P(0) == 1)

    def unfold(k):
        c.assume(P(kz(k) + 1) == P(kz(k)) * gez)
        c.assume(S(kz(k) + 1) == S(kz(k)) + P(kz(k)))

    # positivity lemmas of the spec functions (by induction; base and step are obligations, then used)
    j = z3.Int("jj")
    c.prove(QUAL + ":lemma:P-positive:base", P(0) > 0)
    c.prove(QUAL + ":lemma:P-positive:step", z3.Implies(z3.And(P(j) > 0, P(j + 1) == P(j) * gez), P(j + 1) > 0))
    c.prove(QUAL + ":lemma:S-increasing:step", z3.Implies(z3.And(P(j) > 0, S(j + 1) == S(j) + P(j)), S(j + 1) > S(j)))

    def state0(i, env):
        return {"vec": SymList(unwrap_int(i + 1), Sv, "vec"), "base": Pv(i)}

    def state1(i, env):
        def at(jx, i=i):
            if jx < i:
                return Sv(jx) / Sv(N)
            return Sv(jx)
        return {"vec": SymList(unwrap_int(N + 1), at, "vec")}

    def unfold1(i, env):
        c.assume(S(kz(N)) > 0, "lemma S-increasing: S(N) >= P(0) = 1 for N >= 1")

    loops.SPECS.clear()
    loops.SPECS[(QUAL, 0)] = loops.LoopSpec(state=state0, unfold=lambda k, env: unfold(k))
    loops.SPECS[(QUAL, 1)] = loops.LoopSpec(state=state1, unfold=unfold1)
    c.assume(S(kz(N)) > 0, "lemma S-increasing")
    with loops.patched(GeometricGrid, "normalized", QUAL):
        n = grid.normalized(N)
    # ---- post: the declared normalised locations ---------------------------------------------------
    c.prove(QUAL + ":ensures:length", vc_len(n) == N + 1)
    contract.compare(QUAL + ":ensures:starts-at-0", n[0], 0.0)
    contract.compare(QUAL + ":ensures:ends-at-1", n[N], 1.0)
    def ratio():
        cc = ctx()
        jj = fresh_int("j")
        cc.assume((jj >= 0).z)
        cc.assume((jj <= N - 2).z)
        for d in (0, 1):
            cc.assume(P(kz(jj) + d + 1) == P(kz(jj) + d) * gez)
            cc.assume(S(kz(jj) + d + 1) == S(kz(jj) + d) + P(kz(jj) + d))
        cc.assume(P(kz(jj)) > 0)
        if not cc.feasible():
            return          # N == 1: there are no two consecutive intervals
        a, b, d2 = n[jj], n[unwrap_int(jj + 1)], n[unwrap_int(jj + 2)]
        cc.prove(QUAL + ":ensures:consecutive-intervals-in-constant-ratio", (d2 - b) == ge * (b - a) if isinstance(ge, SymReal) else (d2 - b) == (b - a) * ge)
        cc.prove(QUAL + ":ensures:strictly-increasing", b > a)
    isolated(ratio, QUAL)


def uniform_grid():
    sm = _setup()
    from rockit.sampling_method import UniformGrid, GeometricGrid
    c = ctx()
    N = fresh_int("N")
    c.assume((N >= 1).z)
    T, t0 = ca.MX(unknown("horizon_T", positive=True)), ca.MX(unknown("horizon_t0"))
    from vc.core import _zr
    k = fresh_int("k")
    c.assume((k >= 0).z)
    c.assume((k <= N).z)
    n = UniformGrid().normalized(N)
    c.prove("sampling_method:UniformGrid.normalized:ensures:length", vc_len(n) == N + 1)
    contract.compare("sampling_method:UniformGrid.normalized:ensures:equidistant", n[k], SymReal(_zr(k) / _zr(N)))
    cg = UniformGrid()(t0, T, N)
    QUAL = "sampling_method:Grid.__call__"
    c.prove(QUAL + ":ensures:N+1-nodes", cg.numel() == N + 1)
    nlp.prove_equal(QUAL + ":ensures:starts-at-t0", cg[0], t0)
    nlp.prove_equal(QUAL + ":ensures:ends-at-t0+T", cg[N], t0 + T)
    nlp.prove_equal(QUAL + ":ensures:node-k-at-t0+kT/N", cg[k], t0 + ca.MX._raw(1, 1, [_zr(k) / _zr(N)]) * T)
    def incr():
        cc = ctx()
        cc.assume((k < N).z)
        d = cg[unwrap_int(k + 1)] - cg[k]
        cc.prove(QUAL + ":ensures:strictly-increasing-for-T>0", ca.tz(d.e[0]) > 0)
    isolated(incr, QUAL)
    # non-uniform fixed grids: caller checked against the CONTRACT of normalized (stub), not its body
    nf = z3.Function("n_spec", z3.IntSort(), z3.RealSort())
    class Stub(GeometricGrid):
        def normalized(self, N_):
            return SymList(unwrap_int(N_ + 1), lambda j: SymReal(nf(j.z if isinstance(j, SymInt) else z3.IntVal(int(j)))), "normalized")
    gg = Stub(2.0)
    cg2 = gg(t0, T, N)
    Q2 = "sampling_method:GeometricGrid.__call__"
    c.prove(Q2 + ":ensures:N+1-nodes", cg2.numel() == N + 1)
    nlp.prove_equal(Q2 + ":ensures:node-k-at-t0+T*n_k", cg2[k], t0 + ca.MX._raw(1, 1, [nf(k.z)]) * T)


def integrator_grid(M):
    sm = _setup()
    from rockit import MultipleShooting
    from rockit.sampling_method import SamplingMethod
    c = ctx()
    N = fresh_int("N")
    c.assume((N >= 1).z)
    meth = MultipleShooting(N=N, M=M)
    tg = z3.Function("tg", z3.IntSort(), z3.RealSort())
    tgv = lambda k: tg(k.z if isinstance(k, SymInt) else z3.IntVal(int(k)))
    meth.control_grid = ca.LVec(unwrap_int(N + 1), tgv)
    for nm in ("transcribe_start", "add_parameter", "add_variables", "add_parameter_signals", "set_parameter", "transcribe_event_after_varpar",
               "add_constraints", "add_constraints_after", "add_objective"):
        setattr(meth, nm, lambda *a, **k: None)
    class _S:          # stage / master stand-ins: transcribe only needs stage.master._method.opti
        pass
    stage = _S(); stage.master = _S(); stage.master._method = _S(); stage.master._method.opti = None
    QUAL = "sampling_method:SamplingMethod.transcribe"

    def pts(k):
        a, b = tgv(k), tgv(unwrap_int(k + 1))
        out = [a if i == 0 else a + z3.RealVal(i) * ((b - a) / z3.RealVal(M)) for i in range(M)]
        if k == N - 1:
            out.append(b)
        return ca.MX._raw(len(out), 1, out)

    def state(k, env):
        return {"self.integrator_grid": SymList(k, pts, "integrator_grid")}
    loops.SPECS.clear()
    loops.SPECS[(QUAL, 0)] = loops.LoopSpec(state=state)
    # time_grid(0, 1, N) for the b-spline knots is evaluated first
    with loops.patched(SamplingMethod, "transcribe", QUAL):
        meth.transcribe(stage, phase=1)
    c.prove(QUAL + ":ensures:one-block-per-interval", vc_len(meth.integrator_grid) == N)
    # ---- step lengths read back from it ---------------------------------------------------------------
    k = fresh_int("k")
    c.assume((k >= 0).z)
    c.assume((k < N).z)
    h = ca.MX._raw(1, 1, [(tgv(unwrap_int(k + 1)) - tgv(k)) / z3.RealVal(M)])
    for i in range(M):
        def one(i=i):
            nlp.prove_equal("sampling_method:SamplingMethod.get_DT_at:ensures:step-length[i=%d]" % i, meth.get_DT_at(k, i), h)
        isolated(one, "get_DT_at")
    def dtc():
        nlp.prove_equal("sampling_method:SamplingMethod.get_DT_control_at:ensures:interval-length", meth.get_DT_control_at(k), ca.MX._raw(1, 1, [tgv(unwrap_int(k + 1)) - tgv(k)]))
        last = ca.MX._raw(1, 1, [tgv(N) - tgv(unwrap_int(N - 1))])
        nlp.prove_equal("sampling_method:SamplingMethod.get_DT_control_at:ensures:final-node-takes-last-interval[k=-1]", meth.get_DT_control_at(-1), last)
        nlp.prove_equal("sampling_method:SamplingMethod.get_DT_control_at:ensures:final-node-takes-last-interval[k=N]", meth.get_DT_control_at(N), last)
    isolated(dtc, "get_DT_control_at")


def native_density_grids():
    """DensityGrid / DenseEdgesGrid / FunctionGrid node locations: numerical integration and root finding (CasADi
    integrator + scipy) are outside the symbolic engine, so these are computed on the real code (replay/density_grid.py)
    and compared with closed forms: bounded stand-in (listed densities, N in {1,2,5,8}), never counted as proved"""
    import json, os, subprocess
    from vc.core import ctx
    c = ctx()
    VERIF = os.path.dirname(os.path.dirname(os.path.abspath(__file__)))
    repo = os.environ.get("VERIF_REPO", "/repo")
    env = dict(os.environ, PYTHONPATH=repo + os.pathsep + VERIF, PYTHONDONTWRITEBYTECODE="1")
    p = subprocess.run([os.environ.get("VERIF_NATIVE_PY", "/venv/bin/python"), os.path.join(VERIF, "replay", "density_grid.py")], capture_output=True, text=True, env=env, timeout=900, cwd=os.path.join(VERIF, "out"))
    if p.returncode != 0 or not p.stdout.strip():
        raise RuntimeError("native density grid harness failed: " + p.stderr[-500:])
    for r in json.loads(p.stdout.strip().splitlines()[-1]):
        name = "sampling_method:%s.normalized:ensures:%s[%s,N=%d]" % (r["grid"].split("(")[0], r["what"], r["grid"], r["N"])
        (c.ok(name, detail=r["detail"][:150], backend="enumerated-native") if r["ok"] else c.fail(name, r["detail"]))


def tasks(tier):
    out = [Task("C06/density-and-function-grids", native_density_grids, kind="enumerated", replay=dict(harness="density_probe"),
                bound=dict(densities=["1+tau", "1+3tau^2", "exp(2tau)", "2-tau"], dense_edges=[[10, 0.1], [3, 0.3]], N=[1, 2, 5, 8], tolerance=1e-5, construction_orders=2)),
           Task("C06/proof/GeometricGrid.normalized[N symbolic, local]", lambda: geometric_normalized(True), kind="proof", bound=dict(N="symbolic", growth="symbolic >= 1"), replay=dict(harness="nlp_diff_any", families=[["C06", ["geometric"]]], parts=["grid"])),
           Task("C06/proof/GeometricGrid.normalized[N symbolic, global]", lambda: geometric_normalized(False), kind="proof", bound=dict(N="symbolic", growth="symbolic >= 1"), replay=dict(harness="nlp_diff_any", families=[["C06", ["geometric"]]], parts=["grid"])),
           Task("C06/proof/uniform-and-call[N symbolic]", uniform_grid, kind="proof", bound=dict(N="symbolic", k="symbolic"))]
    for M in ((1, 2, 3) if tier == "thorough" else (1, 2)):
        out.append(Task("C06/proof/integrator-grid[N symbolic, M=%d]" % M, lambda M=M: integrator_grid(M), kind="proof", bound=dict(N="symbolic", k="symbolic", M=M)))
    return out
