"""
C02 (and the collocation part of C04 / C05): unbounded contract of DirectCollocation.add_constraints for a
SYMBOLIC number N of control intervals (M, degree, scheme concrete): every loop over k is cut by a closed-form
invariant; per interval k the body emits exactly, for every integration interval i and collocation point j, one
defect row  (sum_r Xc[:,r] C[r,j])/dt - f(Xc[:,j+1], U_k, p_k, t_{k,i}+dt tau_j)  scaled by the derivative scale,
one continuity row  Xc D - x_next  scaled by the state scale, and the declared path constraints at their points.
"""
import z3
import casadi as ca

from vc.core import ctx, SymInt, SymBool, fresh_int, unwrap_int
from vc.symlist import SymList, vc_len
from vc import loops, contract
from vc.runner import Task
from .backend import ufun
from .unbounded import PreDC


def _flag(name):
    return SymBool(z3.Bool(name))


def dc_add_constraints(M, degree, scheme):
    from rockit import DirectCollocation
    pre = PreDC(M=M, degree=degree, scheme=scheme)
    ocp, meth, opti, N = pre.ocp, pre.meth, pre.opti, pre.N
    x, u, t = pre.x, pre.u, ocp.t
    c = ctx()
    f1, l1 = _flag("include_first_1"), _flag("include_last_1")
    f2, l2 = _flag("include_first_2"), _flag("include_last_2")
    e1 = ufun("c1", 1, [x, u, t, pre.pc, pre.vc, pre.pcp, pre.vcp, pre.p, pre.v])
    ocp.subject_to(e1 <= 1.0, include_first=f1, include_last=l1)
    e2 = ufun("c2", 1, [x, u, t, pre.pc])
    ocp.subject_to(e2 <= 2.0, grid="integrator", include_first=f2, include_last=l2)
    e3 = ufun("b0", 1, [ocp.at_t0(x), pre.p])
    ocp.subject_to(e3 == 0.0)
    e4 = ufun("bf", 1, [ocp.at_tf(x)])
    ocp.subject_to(e4 <= 0.0)
    e5 = ufun("cr", 1, [x, u, t])
    ocp.subject_to(e5 <= 3.0, grid="integrator_roots")
    ocp.subject_to(ufun("co", 1, [x, ocp.next(x)]) <= 5.0)
    ocp.subject_to(ufun("cp", 1, [x, ocp.prev(x), u]) <= 6.0)
    ocp.subject_to(ufun("cm", 1, [ocp.next(x), x, ocp.prev(x)]) <= 7.0)
    QUAL = "direct_collocation:DirectCollocation.add_constraints"
    tau = [ca.num(float(v)) for v in meth.tau]
    d = degree

    def dt_of(k):
        return (meth.control_grid[unwrap_int(k + 1)] - meth.control_grid[k]) / M

    def tr_of(k):
        return [[meth.integrator_grid[k][i] + dt_of(k) * meth.tau[j] for j in range(d)] for i in range(M)]

    def sel(lst, i):
        """lst[i] for a symbolic i in range(len(lst)) (python list of values)"""
        i = unwrap_int(i)
        if isinstance(i, int):
            return lst[i]
        for ii in range(len(lst)):
            if i == ii:
                return lst[ii]

    # ---- loop 4: time grid of the collocation points ------------------------------------------------
    def state4(k, env):
        return {"self.tr": SymList(k, tr_of, "tr")}

    # ---- loop 8: (no b-spline signals in this contract) sampled signal values are empty -------------
    def state8(i, env):
        return {"signals_sampled": SymList(i, lambda j: ca.vertcat(), "signals_sampled")}

    # ---- loop 9: bookkeeping used by sampling (C07/C08) ------------------------------------------------
    def state9(k, env):
        poly, poly_z = env["poly"], env["poly_z"]

        def S_of(j):
            dt = dt_of(j)
            return 1 / ca.repmat(ca.hcat([dt ** i for i in range(d + 1)]), d + 1, 1)

        def pc_at(idx):
            j, i = unwrap_int(idx // M), unwrap_int(idx % M)
            return ca.mtimes(sel(pre.Xc_at(j), i), poly * S_of(j))
        return {
            "dts": SymList(k, dt_of, "dts"),
            "self.Z": SymList(k, lambda j: ca.MX(0, 1), "Z"),
            "self.xk": SymList(unwrap_int(k * M), lambda idx: sel(pre.Xc_at(unwrap_int(idx // M)), unwrap_int(idx % M))[:, 0], "xk"),
            "self.zk": SymList(unwrap_int(k * M), lambda idx: ca.MX(0, 1), "zk"),
            "self.poly_coeff": SymList(unwrap_int(k * M), pc_at, "poly_coeff"),
            "self.poly_coeff_z": SymList(unwrap_int(k * M), lambda idx: ca.MX(0, d), "poly_coeff_z"),
        }

    # ---- loop 11: the rows of interval k ---------------------------------------------------------------------
    def state11(k, env):
        st = {"count_f_eval": unwrap_int(k * (M * d)),
              "self.xqk": SymList(unwrap_int(k * M + 1), lambda idx: ca.DM.zeros(0) if idx == 0 else ca.MX(0, 1), "xqk"),
              "self.Q": SymList(unwrap_int(N + 1), lambda idx, k=k: ca.DM.zeros(0) if idx == 0 else (ca.MX(0, 1) if idx <= k else None), "Q")}
        if isinstance(k, SymInt):
            st["self.q"] = 0 if k == 0 else ca.MX(0, 1)
        else:
            st["self.q"] = 0 if k == 0 else ca.MX(0, 1)
        return st

    C, D = ca.DM(meth.C), ca.DM(meth.D)

    def emits11(k, env):
        rows = []
        Xc = pre.Xc_at(k)
        dt = dt_of(k)
        env_k = pre.env(k)
        tk = meth.control_grid[k]
        for i in range(M):
            t_i = meth.integrator_grid[k][i]
            for j in range(d):
                Pdot = 0
                for r in range(d + 1):
                    Pdot = Pdot + Xc[i][:, r] * C[r, j]
                Pdot = Pdot / dt
                de = dict(env_k)
                de["x"], de["t"] = Xc[i][:, j + 1], t_i + dt * meth.tau[j]
                rows.append((("defect", i, j), "eq", Pdot - pre.rhs(de), pre.scale_der))
                rows.append((("roots", i, j), "le", ufun("cr", 1, [de["x"], de["u"], de["t"]]) - 3.0, 1))
            Pend = 0
            for r in range(d + 1):
                Pend = Pend + Xc[i][:, r] * D[r]
            x_next = pre.Xf(unwrap_int(k + 1)) if i == M - 1 else Xc[i + 1][:, 0]
            rows.append((("continuity", i), "eq", Pend - x_next, pre.scale_x))
            if not (i == 0 and ((k == 0) & ~f2)):
                rows.append((("integrator", i), "le", ufun("c2", 1, [Xc[i][:, 0], env_k["u"], t_i, env_k["pc"]]) - 2.0, 1))
        if not ((k == 0) & ~f1):
            rows.append((("control",), "le", ufun("c1", 1, [pre.Xf(k), env_k["u"], tk, env_k["pc"], env_k["vc"], pre.Pcpf(k), pre.Vcpf(k), env_k["p"], env_k["v"]]) - 1.0, 1))
        rows.append((("next",), "le", ufun("co", 1, [pre.Xf(k), pre.Xf(unwrap_int(k + 1))]) - 5.0, 1))
        if not (k == 0):
            rows.append((("prev",), "le", ufun("cp", 1, [pre.Xf(k), pre.Xf(unwrap_int(k - 1)), env_k["u"]]) - 6.0, 1))
            rows.append((("mixed",), "le", ufun("cm", 1, [pre.Xf(unwrap_int(k + 1)), pre.Xf(k), pre.Xf(unwrap_int(k - 1))]) - 7.0, 1))
        return rows

    loops.SPECS.clear()
    loops.SPECS[(QUAL, 4)] = loops.LoopSpec(state=state4)
    loops.SPECS[(QUAL, 8)] = loops.LoopSpec(state=state8)
    loops.SPECS[(QUAL, 9)] = loops.LoopSpec(state=state9)
    loops.SPECS[(QUAL, 11)] = loops.LoopSpec(state=state11, emits=emits11)
    with loops.patched(DirectCollocation, "add_constraints", QUAL) as P:
        n0 = len(opti.constraints)
        meth.add_constraints(ocp, opti)
    c.notes.append(P.report)
    emitted = opti.constraints[n0:]
    expected = [(("point", "b0"), "expr", meth.eval(ocp, e3) == 0.0, 1), ("marker", QUAL, 11)]
    dN = pre.env(unwrap_int(N - 1), node=N)
    tN = meth.control_grid[N]
    if l1:
        expected.append((("control", "final"), "le", ufun("c1", 1, [pre.Xf(N), dN["u"], tN, dN["pc"], dN["vc"], pre.Pcpf(N), pre.Vcpf(N), dN["p"], dN["v"]]) - 1.0, 1))
    if l2:
        expected.append((("integrator", "final"), "le", ufun("c2", 1, [pre.Xf(N), dN["u"], tN, dN["pc"]]) - 2.0, 1))
    expected.append((("prev", "final"), "le", ufun("cp", 1, [pre.Xf(N), pre.Xf(unwrap_int(N - 1)), dN["u"]]) - 6.0, 1))
    contract.EmissionChecker(opti).compare(QUAL + ":ensures:outside-loops", emitted, expected)
    c.prove(QUAL + ":ensures:len-xk", vc_len(meth.xk) == N * M)


def tasks(tier):
    out = []
    combos = [(1, 1, "radau"), (2, 2, "radau"), (1, 3, "legendre")] if tier != "thorough" else \
        [(1, 1, "radau"), (1, 2, "legendre"), (2, 2, "radau"), (2, 3, "legendre"), (1, 4, "radau"), (3, 2, "radau")]
    for M, d, sch in combos:
        out.append(Task("C02/proof/DC.add_constraints[N symbolic, M=%d, degree=%d, %s]" % (M, d, sch),
                        lambda M=M, d=d, sch=sch: dc_add_constraints(M, d, sch), kind="proof",
                        functions=["direct_collocation:DirectCollocation.add_constraints"],
                        replay=dict(harness="nlp_diff_any", families=[["C02", ["DC-"]], ["C04", ["DC-"]], ["C09", ["DC-"]]], parts=["dynamics", "placement"]),
                        bound=dict(N="symbolic (all N>=1)", k="symbolic", M=M, degree=d, scheme=sch, dims="nx=2,nu=1,nz=0"),
                        note="loops over k cut by closed-form invariants; helpers inlined; collocation tables taken from the method object (their own obligations: C03)"))
    return out
