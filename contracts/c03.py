"""
C03: discretised dynamics and integrals converge to the continuous-time model.

What contracts can decide is that each scheme IS a method whose classical order is known and that time
and step length are threaded correctly; the limit statements themselves are cited (A-MATH-RK, A-INTG).
  * proof: the textbook tableaux the C01 oracle uses satisfy the order conditions up to 4 (rk) / 1 (expl_euler)
    -- exact rational arithmetic, discharged by z3; C01's contracts tie the code to these tableaux;
  * enumerated (NATIVE, real CasADi): DirectCollocation(degree, scheme).tau are the Radau IIA / Gauss points,
    C, D are the Lagrange derivative / end-point data of [0]+tau, and the quadrature weights B satisfy the
    order conditions sum_j B_j tau_j^m = 1/(m+1) for m < 2d-1 (radau) / 2d (legendre)  => classical order
    2d-1 / 2d (Hairer-Wanner IV.5), tolerance 1e-9, degree 1..7;
  * bounded (model): CasADi-integrator plumbing of intg_builtin and Ocp.sys_simulator -- the DAE handed to
    casadi.integrator over tau in [0,1] is DT*f(x,u,p,t0+tau*DT,z) (+ quadrature, algebraic part), and the
    parameter vector of the definition is the one of the call;
  * the collocation / shooting row obligations of C01, C02 and the quadrature part of C05 (same tasks).
"""
import json
import os
import subprocess

import z3
import casadi as ca

from vc.core import ctx
from vc.runner import Task, VERIF
from . import nlp
from .oracle import RK4, EULER
from .spec import Spec, E


def order_conditions():
    c = ctx()
    from fractions import Fraction as Fr
    def fr(v):
        return Fr(v).limit_denominator(1000)
    for name, tab, order in (("rk", RK4, 4), ("expl_euler", EULER, 1)):
        A = [[fr(v) for v in row] for row in tab["A"]]
        b = [fr(v) for v in tab["b"]]
        cc = [fr(v) for v in tab["c"]]
        s = len(b)
        base = "oracle:tableau[%s]" % name
        c.prove(base + ":row-sums", z3.And(*[z3.RealVal(sum(A[i])) == z3.RealVal(cc[i]) for i in range(s)]))
        conds = {1: [("sum b = 1", sum(b), Fr(1))]}
        conds[2] = [("sum b c = 1/2", sum(b[i] * cc[i] for i in range(s)), Fr(1, 2))]
        conds[3] = [("sum b c^2 = 1/3", sum(b[i] * cc[i] ** 2 for i in range(s)), Fr(1, 3)),
                    ("sum b A c = 1/6", sum(b[i] * A[i][j] * cc[j] for i in range(s) for j in range(s)), Fr(1, 6))]
        conds[4] = [("sum b c^3 = 1/4", sum(b[i] * cc[i] ** 3 for i in range(s)), Fr(1, 4)),
                    ("sum b c A c = 1/8", sum(b[i] * cc[i] * A[i][j] * cc[j] for i in range(s) for j in range(s)), Fr(1, 8)),
                    ("sum b A c^2 = 1/12", sum(b[i] * A[i][j] * cc[j] ** 2 for i in range(s) for j in range(s)), Fr(1, 12)),
                    ("sum b A A c = 1/24", sum(b[i] * A[i][j] * A[j][k] * cc[k] for i in range(s) for j in range(s) for k in range(s)), Fr(1, 24))]
        for p in range(1, order + 1):
            for label, lhs, rhs in conds[p]:
                c.prove("%s:order-%d:%s" % (base, p, label), z3.RealVal(lhs) == z3.RealVal(rhs))
        # and not of higher order (so the claimed classical order is exact)
        nxt = conds.get(order + 1)
        if nxt:
            c.prove("%s:not-order-%d" % (base, order + 1), z3.Or(*[z3.RealVal(l) != z3.RealVal(r) for _, l, r in nxt]))


def native_collocation(only=None):
    """runs replay/colloc_tables.py on the real CasADi and turns its verdicts into obligations
    (only: prefixes of the obligations to keep, e.g. the polynomial tables without the quadrature weights)"""
    c = ctx()
    repo = os.environ.get("VERIF_REPO", "/repo")
    env = dict(os.environ, PYTHONPATH=repo + os.pathsep + VERIF, PYTHONDONTWRITEBYTECODE="1")
    p = subprocess.run([os.environ.get("VERIF_NATIVE_PY", "/venv/bin/python"), os.path.join(VERIF, "replay", "colloc_tables.py")],
                       capture_output=True, text=True, env=env, timeout=600)
    if p.returncode not in (0, 1) or not p.stdout.strip():
        raise RuntimeError("native collocation table harness failed: " + p.stderr[-500:])
    res = json.loads(p.stdout.strip().splitlines()[-1])
    for r in res:
        if r["what"] == "casadi-tables" or (only and not r["what"].startswith(tuple(only))):
            continue
        name = "direct_collocation:DirectCollocation.__init__:ensures:%s[d=%d,%s]" % (r["what"], r["degree"], r["scheme"])
        if r["ok"]:
            c.ok(name, detail=r.get("detail"), backend="enumerated-native")
        else:
            c.fail(name, r.get("detail"))
    # the casadi model's own tables agree with the real ones (validation of the assumed contract)
    for r in res:
        if r["what"] != "casadi-tables":
            continue
        tau = ca.collocation_points(r["degree"], r["scheme"])
        C, D, B = ca.collocation_coeff(tau)
        ok = all(abs(float(a) - b) < 1e-9 for a, b in zip(tau, r["tau"])) and \
            all(abs(float(a) - b) < 1e-9 for a, b in zip(ca.vec(C).e, r["C"])) and \
            all(abs(float(a) - b) < 1e-9 for a, b in zip(D.e, r["D"])) and all(abs(float(a) - b) < 1e-9 for a, b in zip(B.e, r["B"]))
        name = "model:casadi.collocation_coeff:validated-against-real-casadi[d=%d,%s]" % (r["degree"], r["scheme"])
        (c.ok if ok else lambda n_, **k: c.fail(n_, "the model's collocation tables differ from CasADi's"))(name, backend="enumerated-native")


def builtin_plumbing(method, intg, M):
    c = ctx()
    spec = Spec(method=method, intg=intg, N=2, M=M, T=("unknown",), t0=("unknown",), params={"": [1], "control": [1]}, variables={"": [1]},
                ode=E("f", None, ("x", "u", "t", "p", "pc", "v")), objective=[("integral", E("L", 1, ("x", "u", "t")))])
    spec.build()
    meth = spec.transcribe()
    I = [f for f in ca._Integrator._all if f.plugin == intg][-1]
    dae, call = I.dae, I.last_call
    inst = "C03/%s-%s-M%d|sampling_method:SamplingMethod.intg_builtin" % (method, intg, M)
    stage = spec.aug
    f = stage._ode()
    x, p, t = ca.MX(dae["x"]), ca.MX(dae["p"]), ca.MX(dae["t"])
    nu, npv = stage.nu, stage.np + stage.v.shape[0]
    U, DT, DTc, P, t0 = p[:nu], p[nu], p[nu + 1], p[nu + 2:nu + 2 + npv], p[nu + 2 + npv]
    want = f(x=x, u=U, p=P, t=t0 + t * DT, z=ca.MX(dae["z"]))
    nlp.prove_equal(inst + ":ensures:ode-is-time-rescaled-rhs", dae["ode"], DT * want["ode"])
    nlp.prove_equal(inst + ":ensures:quad-is-time-rescaled", dae["quad"], DT * want["quad"])
    # the parameter vector of the call has the layout of the definition
    cp = ca.MX(call["p"])
    c.prove(inst + ":ensures:call-parameter-layout", cp.shape == p.shape)
    opts = [r for r in I.rest if isinstance(r, dict)]
    if intg == "collocation":
        c.prove(inst + ":ensures:one-finite-element-per-step", bool(opts and opts[-1].get("number_of_finite_elements") == 1))
    # time span [0,1] per integrator step (no t0/tf/grid given to the integrator => CasADi default 0..1)
    extra = [r for r in I.rest if not isinstance(r, dict)]
    c.prove(inst + ":ensures:unit-time-span", extra == [] or extra == [0, 1])


def simulator_plumbing():
    from rockit import Ocp
    from .backend import ufun
    c = ctx()
    ocp = Ocp(T=1.0)
    x = ocp.state(2); u = ocp.control(); p = ocp.parameter(); q = ocp.parameter(grid="control"); r = ocp.parameter()
    ocp.set_der(x, ufun("f", 2, [x, u, ocp.t, p, q]))        # r does not appear in the dynamics
    sim = ocp.sys_simulator(intg="cvodes")
    I = ca._Integrator._all[-1]
    dae = I.dae
    inst = "C03|ocp:Ocp.sys_simulator"
    pp = ca.MX(dae["p"])
    t0, dt = pp[1], pp[2]
    tau = ca.MX(dae["t"])
    want = ufun("f", 2, [ca.MX(dae["x"]), pp[0], t0 + tau * dt, pp[3], pp[4]])
    nlp.prove_equal(inst + ":ensures:ode-is-time-rescaled-rhs", dae["ode"], dt * want)
    c.prove(inst + ":ensures:only-parameters-of-the-dynamics", pp.numel() == 1 + 2 + 2)
    c.prove(inst + ":ensures:unit-time-span", [r_ for r_ in I.rest if not isinstance(r_, dict)] in ([0, 1], []))
    c.prove(inst + ":ensures:function-signature", sim.name_in() == ["x", "u", "p", "t0", "dt", "z_initial_guess"] and sim.name_out() == ["xf", "zf"])


def tasks(tier):
    from . import c01, props
    out = [Task("C03/order-conditions", order_conditions, kind="proof", note="exact rational identities of the tableaux used by the C01 oracle"),
           Task("C03/collocation-tables", native_collocation, kind="enumerated", replay=dict(harness="colloc_probe"), bound=dict(degree="1..7", schemes=["radau", "legendre"], tolerance=1e-9))]
    for method in ("MS", "SS"):
        for intg in ("cvodes", "idas", "collocation"):
            for M in (1, 2):
                out.append(Task("C03/builtin/%s-%s-M%d" % (method, intg, M), lambda method=method, intg=intg, M=M: builtin_plumbing(method, intg, M), kind="bounded",
                                bound=dict(method=method, intg=intg, M=M)))
    out.append(Task("C03/sys_simulator", simulator_plumbing, kind="bounded", bound=dict(nx=2)))
    # scheme identification: the same obligations as C01 (explicit schemes) and C02/C05 (collocation rows, quadrature)
    for t in c01.tasks(tier):
        t.name = t.name.replace("C01/", "C03/step-is-scheme/")
        out.append(t)
    for prop in ("C02",):
        for t in props.bounded_tasks(prop, "quick"):
            t.name = t.name.replace("C02/", "C03/collocation-rows/")
            out.append(t)
    return out
