"""
C20: ill-posed specifications are rejected, never silently transcribed.

Bounded obligations (real code on the casadi model): for every fault of contracts/faults.py and
every method, declaration + transcription raise an exception (anything the engine cannot execute
is Undecided, never counted as a rejection).  The control case (the well-posed base OCP) must
transcribe, so that "raises" is not vacuous.
Structural obligation: no try/except between the detection sites and Ocp.solve swallows the
exception types involved (only the documented handlers exist).
"""
import ast
import os

from vc.core import ctx
from vc.runner import Task
from .faults import faults, _ok


def fault_task(fname, method):
    def fn():
        c = ctx()
        name = "C20/%s/%s|rejects" % (fname, method)
        try:
            ocp = faults()[fname](method)
            if ocp is None:
                c.ok(name + ":not-applicable-for-this-method", backend="z3")
                return
            ocp._transcribed
        except Exception as e:
            import traceback
            tb = traceback.extract_tb(e.__traceback__)
            where = next((fr for fr in reversed(tb) if "/rockit/" in fr.filename), tb[-1])
            c.ok("%s:raises" % name, detail="%s in %s:%s: %s" % (type(e).__name__, where.filename.split("/")[-1], where.name, str(e)[:100]), backend="z3")
            return
        c.fail("%s:raises" % name, "the ill-posed specification was transcribed without any exception")
    return fn


def generated_fault_task(i):
    """a generated well-posed specification (contracts/randspec.py) with ONE fault of the catalogue injected at a generated
    position: declaration or transcription must raise; the same specification without the fault must transcribe"""
    def fn():
        from . import randspec
        from .spec import Spec
        c = ctx()
        kw0 = randspec.make(i)
        kw, fault = randspec.make_fault(i, kw0)
        fname = fault[0] if fault else "algebraic-with-explicit-scheme"
        name = "C20/R%03d-%s[%s]|rejects" % (i, kw["method"], fname)
        try:
            spec = Spec(fault=fault, **kw)
            spec.build()
            spec.ocp._transcribed
        except Exception as e:
            import traceback
            tb = traceback.extract_tb(e.__traceback__)
            where = next((fr for fr in reversed(tb) if "/rockit/" in fr.filename), tb[-1])
            c.ok("%s:raises" % name, detail="%s in %s:%s: %s" % (type(e).__name__, where.filename.split("/")[-1], where.name, str(e)[:100]), backend="z3")
            return
        c.fail("%s:raises" % name, "the ill-posed specification (%s at position %s) was transcribed without any exception" % (fname, fault[1] if fault else "-"))
    return fn


def control_task(method):
    def fn():
        c = ctx()
        ocp, s = _ok(method)
        ocp._transcribed
        n = len(ocp._augmented._method.opti._g)
        (c.ok if n > 0 else lambda n_, **k: c.fail(n_, "no constraints"))("C20/control/%s|well-posed-base-transcribes" % method, backend="z3")
    return fn


ALLOWED_HANDLERS = {
    ("sampling_method", "add_inf_constraints", "IndexError"), ("sampling_method", "eval_at_control", None),
    ("sampling_method", "set_initial", "Exception"), ("direct_collocation", "set_initial", "Exception"),
    ("multiple_shooting", "add_constraints", "IndexError"), ("single_shooting", "add_constraints", "IndexError"),
    ("direct_collocation", "add_constraints", "IndexError"), ("stage", "_grid_control", "IndexError"),
    ("stage", "_ode", None), ("stage", "_diffeq", None),            # re-raise with a message
    ("direct_method", "transcribe_placeholders", "Exception"), ("direct_method", "transcribe_placeholders", None),
    ("casadi_helpers", "is_numeric", None), ("casadi_helpers", "get_meta", None),
    ("ocp", "sys_simulator", None), ("direct_collocation", None, None),
}


def no_swallow():
    """every try/except on the transcription path is one of the documented handlers, and the broad ones re-raise
    or test the message"""
    c = ctx()
    repo = os.environ.get("VERIF_REPO", "/repo")
    for mod in ("stage", "ocp", "sampling_method", "direct_method", "direct_collocation", "multiple_shooting", "single_shooting", "placeholders"):
        tree = ast.parse(open(os.path.join(repo, "rockit", mod + ".py")).read())
        for fn in [n for n in ast.walk(tree) if isinstance(n, ast.FunctionDef)]:
            for node in ast.walk(fn):
                if not isinstance(node, ast.Try):
                    continue
                for h in node.handlers:
                    typ = h.type.id if isinstance(h.type, ast.Name) else (None if h.type is None else "other")
                    name = "%s:%s:no-swallow[%s]" % (mod, fn.name, typ or "bare")
                    reraises = any(isinstance(x, ast.Raise) for x in ast.walk(h))
                    if (mod, fn.name, typ) in ALLOWED_HANDLERS or (mod, None, None) in ALLOWED_HANDLERS and fn.name == "collocation_coeff":
                        if typ in (None, "Exception") and not reraises and (mod, fn.name) not in (("sampling_method", "eval_at_control"), ("casadi_helpers", "is_numeric"), ("casadi_helpers", "get_meta"), ("ocp", "sys_simulator"), ("direct_method", "transcribe_placeholders")):
                            c.fail(name, "broad handler that never re-raises")
                        else:
                            c.ok(name, detail="documented handler%s" % (" (re-raises)" if reraises else ""))
                    elif typ == "IndexError" and not reraises:
                        c.fail(name, "undocumented IndexError handler: would drop constraints silently")
                    elif typ in (None, "Exception") and not reraises:
                        c.fail(name, "undocumented broad exception handler on the transcription path")
                    else:
                        c.ok(name)


def tasks(tier):
    out = [Task("C20/no-swallow", no_swallow, kind="structural")]
    for m in ("MS", "SS", "DC"):
        out.append(Task("C20/control/%s" % m, control_task(m), kind="bounded", bound=dict(method=m)))
        for fname in faults():
            out.append(Task("C20/%s/%s" % (fname, m), fault_task(fname, m), kind="bounded", bound=dict(fault=fname, method=m, N=2),
                            replay=dict(harness="fault_probe", fault=fname, method=m)))
    from . import randspec
    for i in range(120 if tier == "thorough" else 45):
        kw = randspec.make(i)
        out.append(Task("C20/R%03d-%s" % (i, kw["method"]), generated_fault_task(i), kind="bounded", bound=dict(generated=i),
                        replay=dict(harness="generated_fault_probe", index=i)))
    return out
