"""
Contract plumbing for the unbounded tier: value comparison obligations, per-iteration emission
comparison, and helpers to build pre-states (representation invariants) for real rockit objects.
"""
import z3
import casadi as ca

from .core import ctx, SymInt, SymReal, SymBool, Undecided, fresh_int, unwrap_int, Obligation
from .symlist import SymList
from . import loops
from contracts import nlp


def compare(name, got, want):
    """record obligation(s): got == want"""
    c = ctx()
    if isinstance(want, SymList) or isinstance(got, SymList):
        if not (isinstance(want, SymList) and isinstance(got, (SymList, list))):
            c.fail(name, "expected a list of symbolic length, got %s" % type(got).__name__)
            return
        glen = got.length if isinstance(got, SymList) else len(got)
        c.prove(name + ":len", _eq_int(glen, want.length), detail="length %s vs %s" % (glen, want.length))
        wl, gl = unwrap_int(want.length), unwrap_int(glen)
        if isinstance(wl, SymInt) and isinstance(gl, int):
            # the path may pin the symbolic length (e.g. k == 0 on this branch)
            wl2 = unwrap_int(SymInt(c.normalize(wl.z)))
            if isinstance(wl2, int):
                wl = wl2
        if isinstance(wl, int) and isinstance(gl, int):
            for i in range(min(wl, gl)):
                compare("%s:elem[%d]" % (name, i), got[i], want[i])
            return
        if isinstance(got, list):
            c.unknown(name + ":elem", "concrete list against a list of symbolic length")
            return
        j = fresh_int("j")
        c.assume((j >= 0).z)
        c.assume((j < want.length).z)
        c.assume((j < glen).z if isinstance(glen, SymInt) else z3.BoolVal(True) if isinstance(j < glen, bool) else (j < glen).z)
        compare(name + ":elem", got[j], want[j])
        return
    if isinstance(want, ca.Mat) or isinstance(got, ca.Mat):
        try:
            nlp.prove_equal(name, ca._coerce(got), ca._coerce(want))
        except TypeError:
            c.fail(name, "type mismatch %s vs %s" % (type(got).__name__, type(want).__name__))
        return
    if isinstance(want, dict):
        if not isinstance(got, dict) or set(got) != set(want):
            c.fail(name, "dict keys differ")
            return
        for k in want:
            compare("%s[%s]" % (name, k), got[k], want[k])
        return
    if isinstance(want, (list, tuple)):
        if not isinstance(got, (list, tuple)) or len(got) != len(want):
            c.fail(name, "sequence length %s vs %s" % (len(got) if isinstance(got, (list, tuple)) else type(got).__name__, len(want)))
            return
        for i, (g, w) in enumerate(zip(got, want)):
            compare("%s[%d]" % (name, i), g, w)
        return
    if isinstance(want, (SymInt, SymReal, int, float)) and isinstance(got, (SymInt, SymReal, int, float)):
        c.prove(name, got == want if isinstance(got == want, SymBool) else bool(got == want))
        return
    if want is None or got is None:
        if want is got:
            c.ok(name)
        else:
            c.fail(name, "%r vs %r" % (got, want))
        return
    if got is want:
        c.ok(name)
        return
    c.unknown(name, "cannot compare %s with %s" % (type(got).__name__, type(want).__name__))


def _eq_int(a, b):
    a, b = unwrap_int(a), unwrap_int(b)
    if isinstance(a, int) and isinstance(b, int):
        return a == b
    return a == b


def _atomic(opti_adv, expr, scale):
    """(constraint expr, scale) -> list of atomic rows (kind, residual entry)"""
    mc = opti_adv.canon_expr(expr)
    lb, cn, ub = ca.MX(mc.lb), ca.MX(mc.canon), ca.MX(mc.ub)
    sc = ca._coerce(scale)
    if not (sc.numel() == 1 and sc.is_one()):
        lb, cn, ub = lb / sc, cn / sc, ub / sc
    n = cn.numel()
    if lb.numel() == 1 and n > 1:
        lb = ca.repmat(lb, cn.rows, cn.cols)
    if ub.numel() == 1 and n > 1:
        ub = ca.repmat(ub, cn.rows, cn.cols)
    rows = []
    for i in range(n):
        l, cc, u = lb.e[i], cn.e[i], ub.e[i]
        if ca._same(l, u):
            rows.append(("eq", ca.e_sub(cc, l), i))
            continue
        if not nlp._is_inf(u, +1):
            rows.append(("le", ca.e_sub(cc, u), (i, "ub")))
        if not nlp._is_inf(l, -1):
            rows.append(("le", ca.e_sub(l, cc), (i, "lb")))
    return rows


class EmissionChecker:
    """compares what a piece of code appended to OptiWrapper.constraints with expected rows"""
    def __init__(self, opti):
        self.opti = opti
        self.adv = opti.advanced

    def rows_of(self, emitted):
        rows = []
        for n, item in enumerate(emitted):
            if isinstance(item, loops.Marker):
                rows.append(("marker", item, n))
                continue
            expr, scale, meta = item
            for kind, r, org in _atomic(self.adv, expr, scale):
                rows.append((kind, r, (n, org)))
        return rows

    def compare(self, name, emitted, expected):
        """expected: list of (tag, kind, residual MX, scale) or ('marker', qual, ordinal)"""
        got = self.rows_of(emitted)
        want = []
        for e in expected:
            if e[0] == "marker":
                want.append(("marker", e[1:], ("marker",) + tuple(e[1:])))
                continue
            tag, kind, r, scale = e
            if kind == "expr":
                # expected constraint given as a relation: canonicalised exactly like the emitted one
                for k2, r2, org in _atomic(self.adv, r, scale):
                    want.append((k2, r2, tuple(tag) + (org,)))
                continue
            r = ca.MX(ca._coerce(r))
            sc = ca._coerce(scale)
            if not (sc.numel() == 1 and sc.is_one()):
                r = r / sc
            for i in range(r.numel()):
                want.append((kind, r.e[i], tuple(tag) + (i,)))
        c = ctx()
        # markers
        gm = [g for g in got if g[0] == "marker"]
        wm = [w for w in want if w[0] == "marker"]
        for w in wm:
            hit = next((g for g in gm if (g[1].qual, g[1].ordinal) == tuple(w[1])), None)
            nm = "%s:loop-summary[%s#%d]" % (name, w[1][0], w[1][1])
            if hit is None:
                c.fail(nm, "expected the emissions of that loop here")
            else:
                gm.remove(hit)
                c.ok(nm)
        for g in gm:
            c.fail("%s:unexpected-loop-summary" % name, repr(g[1]))
        nlp.match_rows(name, [g for g in got if g[0] != "marker"], [w for w in want if w[0] != "marker"])


def setup_loops(opti_getter=None):
    loops.COMPARE[0] = compare
    def ghost(env):
        o = env.get("opti")
        return o.constraints if o is not None and hasattr(o, "constraints") else None
    loops.GHOST[0] = ghost
    def emit_compare(name, got, want):
        o = _CUR_OPTI[0]
        EmissionChecker(o).compare(name, got, want)
    loops.EMIT_COMPARE[0] = emit_compare


_CUR_OPTI = [None]


def use_opti(opti):
    _CUR_OPTI[0] = opti
