"""
Containers of symbolic size for the unbounded tier.

SymList  : python-list stand-in with length int|SymInt and element function get(k).
           The element function receives a SymInt (or int) and may fork the path.
SymRange : range(n) with symbolic n; iterating it is only legal inside a loop that vc.loops
           has instrumented (invariant cut), otherwise -> Undecided.
Builtin replacements (vc_len, vc_range, vc_list, vc_enumerate, ...) are installed in the
globals of the rockit modules by vc.loops.install_builtins (module globals shadow builtins).
"""
import builtins
import z3
from .core import SymInt, SymBool, SymReal, Undecided, PathEnd, ctx, unwrap_int, fresh_int, concrete_value


def _as_symint(k):
    if isinstance(k, SymInt):
        return k
    return SymInt(z3.IntVal(int(k)))


class SymList:
    def __init__(self, length, get, name="list"):
        self.length = unwrap_int(length)
        self._get = get
        self.name = name

    # -- size
    def __len__(self):
        n = unwrap_int(self.length)
        if isinstance(n, SymInt):
            raise Undecided("len() of a symbolic list outside instrumented code")
        return n

    def sym_len(self):
        return self.length

    # -- access (faithful to python: negative indices, IndexError when out of range)
    def _norm(self, k):
        k = unwrap_int(k)
        n = self.length
        if isinstance(k, int) and isinstance(n, int):
            if k < 0:
                k += n
            if not 0 <= k < n:
                raise IndexError("list index out of range")
            return k
        ks = _as_symint(k)
        if ks < 0:
            ks = ks + n
        inb = (ks >= 0) & (ks < n)
        if not inb:
            raise IndexError("list index out of range")
        return unwrap_int(ks)

    def __getitem__(self, k):
        if isinstance(k, slice):
            return self._slice(k)
        return self._get(self._norm(k))

    def _slice(self, s):
        if s.step not in (None, 1):
            raise Undecided("slice step on symbolic list")
        n = self.length
        lo = 0 if s.start is None else unwrap_int(s.start)
        hi = n if s.stop is None else unwrap_int(s.stop)
        def fix(v):
            if isinstance(v, int) and v < 0:
                return n + v
            if isinstance(v, SymInt):
                if v < 0:
                    return n + v
            return v
        lo, hi = fix(lo), fix(hi)
        # clamp (python semantics) - only the in-range case is supported symbolically
        if isinstance(lo, SymInt) or isinstance(hi, SymInt) or isinstance(n, SymInt):
            ok = (_as_symint(lo) >= 0) & (_as_symint(hi) <= n) & (_as_symint(lo) <= hi)
            if not ok:
                raise Undecided("clamping slice on a symbolic list")
        else:
            lo, hi = max(0, min(lo, n)), max(0, min(hi, n))
            hi = max(hi, lo)
        g = self._get
        return SymList(hi - lo, lambda j, lo=lo: g(unwrap_int(j + lo)), self.name + "[:]")

    def __setitem__(self, k, v):
        k = self._norm(k)
        old = self._get
        def get(j, k=k, v=v, old=old):
            if j == k:
                return v
            return old(j)
        self._get = get

    def append(self, v):
        n = self.length
        old = self._get
        def get(j, n=n, v=v, old=old):
            if j == n:
                return v
            return old(j)
        self._get = get
        self.length = unwrap_int(n + 1)

    def extend(self, items):
        if isinstance(items, SymList):
            m = items.length
            n = self.length
            old = self._get
            def get(j, n=n, old=old, items=items):
                if j >= n:
                    return items._get(unwrap_int(j - n))
                return old(j)
            self._get = get
            self.length = unwrap_int(n + m)
            return
        for it in items:
            self.append(it)

    def __add__(self, other):
        r = SymList(self.length, self._get, self.name)
        r.extend(other if isinstance(other, SymList) else list(other))
        return r

    def __radd__(self, other):
        other = list(other)
        m = len(other)
        g = self._get
        def get(j, m=m, other=other, g=g):
            j = unwrap_int(j)
            if isinstance(j, int):
                return other[j] if j < m else g(j - m)
            if j < m:
                for i in builtins.range(m):
                    if j == i:
                        return other[i]
            return g(unwrap_int(j - m))
        return SymList(unwrap_int(self.length + m), get, self.name)

    def __iter__(self):
        n = unwrap_int(self.length)
        if isinstance(n, SymInt):
            raise Undecided("iteration over a symbolic list outside an instrumented loop")
        return (self._get(i) for i in builtins.range(n))

    def __bool__(self):
        n = self.length
        if isinstance(n, int):
            return n > 0
        return bool(n > 0)

    def copy(self):
        return SymList(self.length, self._get, self.name)

    def __repr__(self):
        return "SymList(%s, len=%s)" % (self.name, self.length)


class SymRange:
    def __init__(self, start, stop):
        self.start, self.stop = unwrap_int(start), unwrap_int(stop)

    @property
    def length(self):
        return unwrap_int(self.stop - self.start)

    def __iter__(self):
        raise Undecided("loop over a symbolic range that is not instrumented with an invariant")

    def __len__(self):
        n = self.length
        if isinstance(n, SymInt):
            raise Undecided("len(range(symbolic))")
        return n

    def as_list(self):
        s = self.start
        n = self.length
        if isinstance(n, SymInt):
            # python: empty when stop<=start
            if n < 0:
                n = 0
        elif n < 0:
            n = 0
        return SymList(n, lambda j, s=s: unwrap_int(j + s), "range")

    def __repr__(self):
        return "SymRange(%s,%s)" % (self.start, self.stop)


# -------------------------------------------------------------------------------------------
# builtin replacements
# -------------------------------------------------------------------------------------------
def vc_range(*a):
    a = [unwrap_int(x) for x in a]
    if any(isinstance(x, SymInt) for x in a):
        if len(a) == 1:
            return SymRange(0, a[0])
        if len(a) == 2:
            return SymRange(a[0], a[1])
        raise Undecided("range with symbolic step")
    return builtins.range(*a)


def vc_len(x):
    if isinstance(x, SymList):
        return x.length
    if isinstance(x, SymRange):
        return x.length
    return builtins.len(x)


class _ListMeta(type):
    def __instancecheck__(cls, obj):
        return isinstance(obj, (builtins.list, SymList))


class vc_list(metaclass=_ListMeta):
    """stands in for the builtin `list` inside rockit modules (constructor + isinstance)"""
    def __new__(cls, *a):
        if a and isinstance(a[0], SymRange):
            return a[0].as_list()
        if a and isinstance(a[0], SymList):
            return a[0].copy()
        return builtins.list(*a)


def vc_enumerate(it, start=0):
    if isinstance(it, (SymList, SymRange)):
        raise Undecided("enumerate over a symbolic sequence")
    return builtins.enumerate(it, start)


def vc_int(x=0, *a):
    if isinstance(x, SymInt):
        return x
    return builtins.int(x, *a)


def vc_min(*a, **k):
    if any(isinstance(x, (SymInt, SymReal)) for x in a):
        if len(a) != 2:
            raise Undecided("min arity")
        x, y = a
        return x if x <= y else y
    return builtins.min(*a, **k)


def vc_max(*a, **k):
    if any(isinstance(x, (SymInt, SymReal)) for x in a):
        if len(a) != 2:
            raise Undecided("max arity")
        x, y = a
        return x if x >= y else y
    return builtins.max(*a, **k)


REPLACEMENTS = dict(range=vc_range, len=vc_len, list=vc_list, enumerate=vc_enumerate, int=vc_int, min=vc_min, max=vc_max)


class NumpyProxy:
    """numpy as seen by the rockit modules in the unbounded tier: linspace with a symbolic number
    of points returns a SymList of reals (A-NUMPY: start + i*(stop-start)/(n-1), last = stop);
    everything else is the real numpy"""
    def __init__(self):
        import numpy
        object.__setattr__(self, "_np", numpy)

    def __getattr__(self, name):
        return getattr(object.__getattribute__(self, "_np"), name)

    def linspace(self, start, stop, num=50, *a, **k):
        num = unwrap_int(num)
        if not isinstance(num, SymInt):
            return object.__getattribute__(self, "_np").linspace(start, stop, num, *a, **k)
        import z3 as _z3
        from .core import _zr
        zs, ze = _zr(start), _zr(stop)
        def get(i):
            iz = _zr(i)
            return SymReal(_z3.simplify(zs + (ze - zs) * iz / (_zr(num) - 1)))
        return SymList(num, get, "linspace")
