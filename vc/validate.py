"""Engine side of the dependency-contract validation: model/casadi vs the real CasADi on sampled inputs."""
import json
import os
import subprocess

from .core import ctx
from .runner import VERIF


def dependency_contracts(seeds=(0, 1)):
    import casadi as ca
    from replay import dep_contracts as dc
    c = ctx()
    env = dict(os.environ, PYTHONPATH=VERIF, PYTHONDONTWRITEBYTECODE="1")
    p = subprocess.run([os.environ.get("VERIF_NATIVE_PY", "/venv/bin/python"), os.path.join(VERIF, "replay", "dep_contracts.py"), "--dump"] + [str(s) for s in seeds],
                       capture_output=True, text=True, env=env, timeout=600)
    if p.returncode != 0:
        raise RuntimeError("native dependency-contract run failed: " + p.stderr[-600:])
    real = json.loads(p.stdout.strip().splitlines()[-1])
    mine = dc.evaluate(ca, seeds=seeds)
    for name in sorted(real):
        ob = "model:casadi:%s:validated-against-real-casadi" % name
        r, m = real[name], mine.get(name)
        if isinstance(r, dict) or isinstance(m, dict):
            if isinstance(r, dict) and isinstance(m, dict):
                c.ok(ob, detail="both raise", backend="sampled")
            else:
                c.fail(ob, "real: %s / model: %s" % (str(r)[:120], str(m)[:120]))
            continue
        bad = None
        if len(r) != len(m):
            bad = "number of results %d vs %d" % (len(r), len(m))
        else:
            for i, (a, b) in enumerate(zip(r, m)):
                if a["shape"] != b["shape"]:
                    bad = "result %d: shape %s (real) vs %s (model)" % (i, a["shape"], b["shape"])
                    break
                for x, y in zip(a["values"], b["values"]):
                    if (x is None) != (y is None) or (x is not None and abs(x - y) > 1e-9 * (1 + abs(x))):
                        bad = "result %d: value %s (real) vs %s (model)" % (i, x, y)
                        break
                if bad:
                    break
        if bad:
            c.fail(ob, bad)
        else:
            c.ok(ob, backend="sampled")
