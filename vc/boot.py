"""Import the real rockit sources from a repository tree under the casadi model."""
import os
import sys
import importlib
sys.dont_write_bytecode = True

HERE = os.path.dirname(os.path.abspath(__file__))
VERIF = os.path.dirname(HERE)


def boot(repo=None):
    """Make `import rockit` resolve to <repo>/rockit executed against model/casadi."""
    repo = repo or os.environ.get("VERIF_REPO", "/repo")
    for p in (os.path.join(VERIF, "model"), VERIF, repo):
        if p in sys.path:
            sys.path.remove(p)
    sys.path.insert(0, repo)
    sys.path.insert(0, VERIF)
    sys.path.insert(0, os.path.join(VERIF, "model"))
    for name in list(sys.modules):
        if name == "rockit" or name.startswith("rockit.") or name == "casadi" or name.startswith("casadi."):
            del sys.modules[name]
    import casadi
    assert casadi.__version__.endswith("-model"), "real casadi must not be importable in the engine interpreter"
    rockit = importlib.import_module("rockit")
    assert os.path.realpath(os.path.dirname(rockit.__file__)) == os.path.realpath(os.path.join(repo, "rockit")), rockit.__file__
    return rockit
