"""
Symbolic core of the VC generator.

The real rockit functions are executed by CPython.  Values that must stay universally
quantified are proxies around z3 terms:

  SymInt   -- integer (loop bounds N, M, indices k, offsets)
  SymBool  -- boolean; `bool(b)` *forks*: the run is re-executed once per feasible branch
  (reals live inside the casadi model's matrices, rockit never branches on them)

A *path* is one execution under a decision prefix.  Obligations proved on a path are proved
under that path's condition; `explore` enumerates all feasible paths (exhaustively - loops
over symbolic ranges are cut by invariants in vc.loops, everything else is finite).

Verdicts:  'discharged' / 'refuted' (with model) / 'unknown'.
Anything the engine cannot execute soundly raises Undecided (never a violation).
"""
import itertools
import os
import subprocess
import tempfile
import time
import z3

Z3_TIMEOUT_MS = 20000


class Undecided(BaseException):
    """The engine cannot decide (unsupported construct, concretisation of a symbol, solver unknown).
    rockit has bare `except:` clauses that would swallow it; every instance therefore registers itself with the
    current path and the path is reported undecided at its end unless a handler of the ENGINE acknowledged it."""

    def __init__(self, *a):
        BaseException.__init__(self, *a)
        c = _CTX[0] if "_CTX" in globals() else None
        if c is not None:
            c.raised_undecided.append(self)

    def acknowledge(self):
        c = _CTX[0]
        if c is not None and self in c.raised_undecided:
            c.raised_undecided.remove(self)


class PathEnd(BaseException):
    """The current path ends here (end of an invariant-cut loop body, infeasible assumption)."""


class Obligation:
    __slots__ = ("name", "status", "model", "time_s", "backend", "path", "detail", "smt2")

    def __init__(self, name, status, model=None, time_s=0.0, backend="z3", path=None, detail=None, smt2=None):
        self.name, self.status, self.model, self.time_s = name, status, model, time_s
        self.backend, self.path, self.detail, self.smt2 = backend, path, detail, smt2

    def as_dict(self):
        return dict(name=self.name, status=self.status, backend=self.backend,
                    time_s=round(self.time_s, 4), detail=self.detail)


class Ctx:
    """Execution context of one path."""

    def __init__(self, prefix=()):
        self.prefix = list(prefix)
        self.trace = []
        self.pc = []
        self.solver = z3.Solver()
        self.solver.set("timeout", Z3_TIMEOUT_MS)
        self.obligations = []
        self.pending = []          # alternative prefixes discovered on this path
        self.assumptions = []      # names of assumed facts (contracts of callees, invariants)
        self.emissions = None      # ghost NLP log, installed by the casadi model
        self.notes = []
        self.loop_stack = []
        self.raised_undecided = []
        self.loop_ctx = []         # innermost verified iteration of a symbolic loop: (tag, index k, {"n": creation counter})
        self.subst = []

    # ---- path condition -------------------------------------------------------------
    def assume(self, f, why=None):
        if isinstance(f, SymBool):
            f = f.z
        if isinstance(f, bool):
            if not f:
                raise PathEnd()
            return
        self.pc.append(f)
        self.solver.add(f)
        self._learn_equality(f)
        if why:
            self.assumptions.append(why)

    def _learn_equality(self, f):
        """integer equalities  const == term  on the path are kept as a substitution, so that
        terms that are equal modulo them become syntactically equal (keeps big nonlinear
        equalities away from the solver)"""
        if not z3.is_eq(f):
            return
        a, b = f.children()
        if a.sort() != z3.IntSort():
            return
        def is_var(t):
            return z3.is_const(t) and t.decl().kind() == z3.Z3_OP_UNINTERPRETED
        if is_var(b) and not is_var(a):
            a, b = b, a
        if is_var(a) and is_var(b):
            # replace the younger one (fresh names carry an increasing counter after '!')
            def age(t):
                n = t.decl().name()
                return int(n.split("!")[-1]) if "!" in n and n.split("!")[-1].isdigit() else -1
            if age(b) > age(a):
                a, b = b, a
        if is_var(a) and not any(a.eq(x) for x in _subterms_consts(b)):
            self.subst.append((a, b))

    def normalize(self, term):
        """apply the learnt integer equalities to a z3 term"""
        def is_var(t):
            return z3.is_const(t) and t.decl().kind() == z3.Z3_OP_UNINTERPRETED
        rules = [(a, b) for a, b in self.subst if not is_var(a)]      # defining recurrences  F(k+1) := ...
        eqs = [(a, b) for a, b in self.subst if is_var(a)]            # learnt integer equalities  j := k
        for _ in range(8):
            before = term
            for a, b in reversed(rules):
                term = z3.substitute(term, (a, b))
            for a, b in reversed(eqs):
                term = z3.substitute(term, (a, b))
            # the rules themselves are read modulo the equalities
            if eqs and rules:
                rules = [(z3.simplify(z3.substitute(a, *[(x, y) for x, y in reversed(eqs)])), b) for a, b in rules]
            term = z3.simplify(term)
            if term.eq(before):
                break
        return term

    def feasible(self, extra=None):
        self.solver.push()
        try:
            if extra is not None:
                self.solver.add(extra)
            r = self.solver.check()
        finally:
            self.solver.pop()
        if r == z3.unknown:
            raise Undecided("solver unknown on feasibility check")
        return r == z3.sat

    def decide(self, cond):
        """Fork on a z3 Bool.  Deterministic under re-execution: the same feasibility
        queries are asked on replay, only genuine forks are recorded in the trace."""
        cond = z3.simplify(cond)
        if z3.is_true(cond):
            return True
        if z3.is_false(cond):
            return False
        can_t = self.feasible(cond)
        can_f = self.feasible(z3.Not(cond))
        if not can_t and not can_f:
            raise PathEnd()         # an assumption made the path condition unsatisfiable: nothing to verify here
        if can_t and can_f:
            i = len(self.trace)
            if i < len(self.prefix):
                d = self.prefix[i]
            else:
                d = True
                self.pending.append(self.trace + [False])
            self.trace.append(d)
            self.assume(cond if d else z3.Not(cond))
            return d
        if can_t:
            return True
        if can_f:
            return False
        raise PathEnd()

    def choose(self, n):
        """structural fork (proof-rule split, not a semantic branch): all n alternatives are explored"""
        i = len(self.trace)
        if i < len(self.prefix):
            d = self.prefix[i]
        else:
            d = 0
            for alt in range(1, n):
                self.pending.append(self.trace + [alt])
        self.trace.append(d)
        return d

    # ---- obligations ----------------------------------------------------------------
    def prove(self, name, claim, detail=None):
        """Record obligation `name`: pc => claim."""
        if isinstance(claim, SymBool):
            claim = claim.z
        if isinstance(claim, bool):
            claim = z3.BoolVal(claim)
        t0 = time.time()
        self.solver.push()
        try:
            self.solver.add(z3.Not(claim))
            r = self.solver.check()
            model = None
            if r == z3.sat:
                model = self.solver.model()
        finally:
            self.solver.pop()
        dt = time.time() - t0
        smt2 = None
        second = None
        if r == z3.unsat and os.environ.get("VERIF_TIER") == "thorough":
            second = _cvc5_second_opinion(self.pc, claim)
        if r == z3.unsat:
            st = "discharged"
        elif r == z3.sat:
            st = "refuted"
        else:
            st = "unknown"
        if st != "discharged":
            s = z3.Solver()
            s.add(*self.pc)
            s.add(z3.Not(claim))
            smt2 = s.to_smt2()
        ob = Obligation(name, st, model=_model_dict(model), time_s=dt, path=list(self.trace), detail=detail, smt2=smt2)
        if second is not None:
            ob.backend = "z3+cvc5:%s" % second
            if second == "sat":
                ob.status = "unknown"
                ob.detail = "z3 says unsat, cvc5 says sat on the same query: solvers disagree"
        self.obligations.append(ob)
        return ob.status == "discharged"

    def fail(self, name, detail, model=None):
        """An obligation refuted by construction (e.g. unexpected exception on a feasible path)."""
        m = None
        if model is None:
            if self.solver.check() == z3.sat:
                m = _model_dict(self.solver.model())
        self.obligations.append(Obligation(name, "refuted", model=m or model, path=list(self.trace), detail=detail))

    def ok(self, name, detail=None, backend="structural"):
        self.obligations.append(Obligation(name, "discharged", backend=backend, path=list(self.trace), detail=detail))

    def unknown(self, name, detail=None):
        self.obligations.append(Obligation(name, "unknown", path=list(self.trace), detail=detail))


def _cvc5_second_opinion(pc, claim, timeout_ms=15000):
    """independent re-discharge of one obligation by cvc5 (thorough tier): 'unsat' / 'sat' / 'unknown'"""
    sol = z3.Solver()
    sol.add(*pc)
    sol.add(z3.Not(claim))
    txt = "(set-logic ALL)\n" + sol.to_smt2()
    with tempfile.NamedTemporaryFile("w", suffix=".smt2", delete=False) as f:
        f.write(txt)
        path = f.name
    try:
        p = subprocess.run(["/usr/bin/cvc5", "--tlimit=%d" % timeout_ms, path], capture_output=True, text=True, timeout=timeout_ms / 1000 + 10)
        out = p.stdout.strip().splitlines()
        res = out[0] if out else "unknown"
        return res if res in ("sat", "unsat") else "unknown"
    except Exception:
        return "unknown"
    finally:
        try:
            os.remove(path)
        except OSError:
            pass


def _subterms_consts(t):
    out, stack, seen = [], [t], set()
    while stack:
        x = stack.pop()
        if x.get_id() in seen:
            continue
        seen.add(x.get_id())
        if z3.is_const(x) and x.decl().kind() == z3.Z3_OP_UNINTERPRETED:
            out.append(x)
        stack.extend(x.children())
    return out


def _model_dict(model):
    if model is None:
        return None
    out = {}
    for d in model.decls():
        if d.arity() == 0:
            out[d.name()] = str(model[d])
    return out


_CTX = [None]


def ctx():
    c = _CTX[0]
    if c is None:
        raise Undecided("symbolic value used outside an exploration")
    return c


def have_ctx():
    return _CTX[0] is not None


class Result:
    def __init__(self):
        self.obligations = []
        self.paths = 0
        self.assumptions = set()
        self.emission_logs = []   # per path
        self.undecided = []
        self.returns = []

    def merged(self):
        """Obligations merged by name over paths: discharged iff discharged on every path."""
        by = {}
        for ob in self.obligations:
            by.setdefault(ob.name, []).append(ob)
        out = []
        for name, obs in by.items():
            bad = [o for o in obs if o.status == "refuted"]
            unk = [o for o in obs if o.status == "unknown"]
            rep = (bad or unk or obs)[0]
            m = Obligation(name, rep.status, model=rep.model, time_s=sum(o.time_s for o in obs),
                           backend=rep.backend, path=rep.path, detail=rep.detail, smt2=rep.smt2)
            out.append(m)
        return out


def isolated(fn, label="check"):
    """Run fn() (a pure check: it may fork and record obligations but must not change program
    state) in its own fork scope under the current path condition.  All its local paths are
    explored here; the calling path continues unforked."""
    outer = ctx()
    work = [[]]
    n = 0
    while work:
        prefix = work.pop()
        c = Ctx(prefix)
        for f in outer.pc:
            c.pc.append(f)
            c.solver.add(f)
        c.subst = list(outer.subst)
        _CTX[0] = c
        try:
            try:
                fn()
            except PathEnd:
                pass
            except Undecided as e:
                e.acknowledge()
                c.unknown("%s:engine-limit" % label, str(e))
        finally:
            _CTX[0] = outer
        outer.obligations.extend(c.obligations)
        outer.assumptions.extend(c.assumptions)
        work.extend(c.pending)
        n += 1
        if n > 2000:
            outer.unknown("%s:path-budget" % label, "more than 2000 local paths")
            break


def explore(fn, max_paths=4000):
    """Run fn() once per feasible path.  fn receives nothing and may return a value."""
    res = Result()
    work = [[]]
    while work:
        prefix = work.pop()
        c = Ctx(prefix)
        _CTX[0] = c
        try:
            try:
                r = fn()
                res.returns.append((list(c.trace), r))
                if c.raised_undecided:
                    res.undecided.append((list(c.trace), "engine limit swallowed by an exception handler of the code under verification: %s" % c.raised_undecided[0]))
            except PathEnd:
                if c.raised_undecided:
                    res.undecided.append((list(c.trace), "engine limit swallowed by an exception handler of the code under verification: %s" % c.raised_undecided[0]))
            except Undecided as e:
                import traceback
                e.acknowledge()
                fr = [f for f in traceback.extract_tb(e.__traceback__) if "/vc/core.py" not in f.filename]
                where = " <- ".join("%s:%d(%s)" % (f.filename.split("/")[-1], f.lineno, f.name) for f in reversed(fr[-4:]))
                res.undecided.append((list(c.trace), "%s [%s]" % (e, where)))
        finally:
            _CTX[0] = None
        res.paths += 1
        res.obligations.extend(c.obligations)
        res.assumptions.update(c.assumptions)
        if c.emissions is not None:
            res.emission_logs.append((list(c.trace), c.emissions))
        work.extend(c.pending)
        if res.paths > max_paths:
            res.undecided.append(([], "path budget exceeded"))
            break
    return res


# ------------------------------------------------------------------------------------------
# proxies
# ------------------------------------------------------------------------------------------

def _zi(v):
    if isinstance(v, SymInt):
        return v.z
    if isinstance(v, bool):
        return z3.IntVal(int(v))
    if isinstance(v, int):
        return z3.IntVal(v)
    try:
        import numpy as np
        if isinstance(v, np.integer):
            return z3.IntVal(int(v))
    except ImportError:
        pass
    return None


class SymBool:
    __slots__ = ("z",)

    def __init__(self, z):
        self.z = z

    def __bool__(self):
        return ctx().decide(self.z)

    def __and__(self, o):
        return SymBool(z3.And(self.z, _zb(o)))

    __rand__ = __and__

    def __or__(self, o):
        return SymBool(z3.Or(self.z, _zb(o)))

    __ror__ = __or__

    def __invert__(self):
        return SymBool(z3.Not(self.z))

    def __eq__(self, o):
        return SymBool(self.z == _zb(o))

    def __hash__(self):
        raise Undecided("hash of a symbolic bool")

    def __repr__(self):
        return "SymBool(%s)" % self.z


def _zb(v):
    if isinstance(v, SymBool):
        return v.z
    if isinstance(v, bool):
        return z3.BoolVal(v)
    raise Undecided("bool operand %r" % (v,))


class SymInt:
    """Mathematical integer (A-PY: Python ints are unbounded)."""
    __slots__ = ("z",)

    def __init__(self, z):
        self.z = z3.Int(z) if isinstance(z, str) else z

    # arithmetic
    def _bin(self, o, f, r=False):
        zo = _zi(o)
        if zo is None:
            return NotImplemented
        return SymInt(z3.simplify(f(zo, self.z) if r else f(self.z, zo)))

    def __add__(self, o): return self._bin(o, lambda a, b: a + b)
    def __radd__(self, o): return self._bin(o, lambda a, b: a + b, True)
    def __sub__(self, o): return self._bin(o, lambda a, b: a - b)
    def __rsub__(self, o): return self._bin(o, lambda a, b: a - b, True)
    def __mul__(self, o): return self._bin(o, lambda a, b: a * b)
    def __rmul__(self, o):
        if isinstance(o, list):
            # python list repetition with a symbolic count
            from .symlist import SymList
            items = list(o)
            m = len(items)
            if m == 0:
                return []
            def get(j, items=items, m=m):
                r = unwrap_int(j % m) if m > 1 else 0
                if isinstance(r, int):
                    return items[r]
                for i in range(m):
                    if r == i:
                        return items[i]
            return SymList(unwrap_int(self * m), get, "repeat")
        return self._bin(o, lambda a, b: a * b, True)

    def __floordiv__(self, o):
        zo = _zi(o)
        if zo is None:
            return NotImplemented
        # python floor division == z3 div for positive divisor
        ctx().prove("safety:floordiv-positive-divisor", zo > 0)
        return SymInt(self.z / zo)

    def __mod__(self, o):
        zo = _zi(o)
        if zo is None:
            return NotImplemented
        ctx().prove("safety:mod-positive-divisor", zo > 0)
        return SymInt(self.z % zo)

    def __neg__(self): return SymInt(-self.z)
    def __pos__(self): return self

    def __truediv__(self, o):
        return SymReal(z3.ToReal(self.z)) / o

    def __rtruediv__(self, o):
        return SymReal(z3.ToReal(self.z)).__rtruediv__(o)

    def __pow__(self, o):
        if isinstance(o, int) and o >= 0:
            r = 1
            for _ in range(o):
                r = r * self
            return r
        return NotImplemented

    # comparisons
    def _cmp(self, o, f):
        zo = _zi(o)
        if zo is None:
            if isinstance(o, float):
                return SymBool(f(z3.ToReal(self.z), z3.RealVal(repr(o))))
            return NotImplemented
        return SymBool(z3.simplify(f(self.z, zo)))

    def __lt__(self, o): return self._cmp(o, lambda a, b: a < b)
    def __le__(self, o): return self._cmp(o, lambda a, b: a <= b)
    def __gt__(self, o): return self._cmp(o, lambda a, b: a > b)
    def __ge__(self, o): return self._cmp(o, lambda a, b: a >= b)

    def __eq__(self, o):
        if o is None or isinstance(o, str):
            return False
        r = self._cmp(o, lambda a, b: a == b)
        return False if r is NotImplemented else r

    def __ne__(self, o):
        if o is None or isinstance(o, str):
            return True
        r = self._cmp(o, lambda a, b: a != b)
        return True if r is NotImplemented else r

    def __bool__(self):
        return ctx().decide(self.z != 0)

    def __hash__(self):
        raise Undecided("hash of a symbolic int (dict key / set member)")

    def __index__(self):
        v = concrete_value(self.z)
        if v is None:
            raise Undecided("concretisation of symbolic int %s (__index__)" % self.z)
        return v

    __int__ = __index__

    def __repr__(self):
        return "SymInt(%s)" % self.z


def concrete_value(z):
    s = z3.simplify(z)
    if z3.is_int_value(s):
        return s.as_long()
    return None


def unwrap_int(v):
    """SymInt with a concrete value -> python int."""
    if isinstance(v, SymInt):
        c = concrete_value(v.z)
        return v if c is None else c
    return v


def is_sym(v):
    return isinstance(v, (SymInt, SymBool))


_fresh = itertools.count()


def fresh_int(name, lo=None, hi=None):
    v = SymInt(z3.Int("%s!%d" % (name, next(_fresh))))
    if lo is not None:
        ctx().assume(v.z >= _zi(lo))
    if hi is not None:
        ctx().assume(v.z <= _zi(hi))
    return v


def fresh_real(name):
    return z3.Real("%s!%d" % (name, next(_fresh)))


def sym_and(*xs):
    out = []
    for x in xs:
        if isinstance(x, SymBool):
            out.append(x.z)
        elif isinstance(x, bool):
            out.append(z3.BoolVal(x))
        else:
            out.append(x)
    return z3.And(*out)


def _zr(v):
    """python number / SymInt / SymReal -> z3 Real term (None if not a scalar number)."""
    if isinstance(v, SymReal):
        return v.z
    if isinstance(v, SymInt):
        return z3.ToReal(v.z)
    if isinstance(v, bool):
        return z3.RealVal(int(v))
    if isinstance(v, int):
        return z3.RealVal(v)
    if isinstance(v, float):
        if v != v or v in (float("inf"), float("-inf")):
            raise Undecided("non-finite float in symbolic real arithmetic")
        return z3.RealVal(repr(v))
    try:
        import numpy as np
        if isinstance(v, np.integer):
            return z3.RealVal(int(v))
        if isinstance(v, np.floating):
            return _zr(float(v))
    except ImportError:
        pass
    return None


class SymReal:
    """Mathematical real (A-FLOAT: floats are treated as reals)."""
    __slots__ = ("z",)

    def __init__(self, z):
        self.z = z3.Real(z) if isinstance(z, str) else z

    def _bin(self, o, f, r=False):
        zo = _zr(o)
        if zo is None:
            return NotImplemented
        return SymReal(f(zo, self.z) if r else f(self.z, zo))

    def __add__(self, o): return self._bin(o, lambda a, b: a + b)
    def __radd__(self, o): return self._bin(o, lambda a, b: a + b, True)
    def __sub__(self, o): return self._bin(o, lambda a, b: a - b)
    def __rsub__(self, o): return self._bin(o, lambda a, b: a - b, True)
    def __mul__(self, o): return self._bin(o, lambda a, b: a * b)
    def __rmul__(self, o): return self._bin(o, lambda a, b: a * b, True)
    def __truediv__(self, o): return self._bin(o, lambda a, b: a / b)
    def __rtruediv__(self, o): return self._bin(o, lambda a, b: a / b, True)
    def __neg__(self): return SymReal(-self.z)
    def __pos__(self): return self

    def __pow__(self, o):
        if isinstance(o, int):
            if o == 0:
                return 1.0
            r = self
            for _ in range(abs(o) - 1):
                r = r * self
            return r if o > 0 else 1.0 / r
        zo = _zr(o)
        if zo is None:
            return NotImplemented
        return SymReal(RPOW(self.z, zo))

    def __rpow__(self, o):
        zo = _zr(o)
        if zo is None:
            return NotImplemented
        return SymReal(RPOW(zo, self.z))

    def _cmp(self, o, f):
        zo = _zr(o)
        if zo is None:
            return NotImplemented
        return SymBool(z3.simplify(f(self.z, zo)))

    def __lt__(self, o): return self._cmp(o, lambda a, b: a < b)
    def __le__(self, o): return self._cmp(o, lambda a, b: a <= b)
    def __gt__(self, o): return self._cmp(o, lambda a, b: a > b)
    def __ge__(self, o): return self._cmp(o, lambda a, b: a >= b)

    def __eq__(self, o):
        r = self._cmp(o, lambda a, b: a == b)
        return False if r is NotImplemented else r

    def __ne__(self, o):
        r = self._cmp(o, lambda a, b: a != b)
        return True if r is NotImplemented else r

    def __bool__(self):
        return ctx().decide(self.z != 0)

    def __hash__(self):
        raise Undecided("hash of a symbolic real")

    def __float__(self):
        s = z3.simplify(self.z)
        if z3.is_rational_value(s):
            return float(s.numerator_as_long()) / float(s.denominator_as_long())
        raise Undecided("concretisation of symbolic real %s" % self.z)

    def __repr__(self):
        return "SymReal(%s)" % self.z


# real power with non-integer exponent: uninterpreted, axioms added where a contract needs them
RPOW = z3.Function("rpow", z3.RealSort(), z3.RealSort(), z3.RealSort())
