"""
Task runner: explores every task of a property in a process pool, merges obligations,
applies the known-findings file, triggers native replays for refuted obligations, writes the
evidence file and prints the verdict lines.

exit codes: 0 held (possibly with KNOWN-FINDING lines) / 1 VIOLATION / 2 undecided / 3 checker crash
"""
import fnmatch
import hashlib
import json
import multiprocessing
import os
import re
import subprocess
import sys
import time
import traceback

VERIF = os.path.dirname(os.path.dirname(os.path.abspath(__file__)))


class Task:
    def __init__(self, name, fn, kind="bounded", functions=(), replay=None, note=None, bound=None):
        self.name, self.fn, self.kind = name, fn, kind
        self.functions, self.replay, self.note, self.bound = list(functions), replay, note, bound


_TASKS = []
_MARK_DIR = None


class TaskTimeout(BaseException):
    """wall-clock limit of one task (VERIF_TASK_TIMEOUT seconds, default 300): the task is UNDECIDED, never a violation"""


def _task_limit():
    return int(os.environ.get("VERIF_TASK_TIMEOUT", "300"))


def _run_one(i):
    import signal, threading
    from vc.core import explore
    t = _TASKS[i]
    t0 = time.time()
    out = dict(task=t.name, kind=t.kind, functions=t.functions, replay=t.replay, note=t.note, bound=t.bound,
               obligations=[], paths=0, undecided=[], crash=None, assumptions=[])
    limit = _task_limit()

    def on_alarm(signum, frame):
        raise TaskTimeout("".join(traceback.format_stack(frame)[-6:]))
    hard = None
    if threading.current_thread() is threading.main_thread():
        signal.signal(signal.SIGALRM, on_alarm)
        signal.alarm(limit)
        if _MARK_DIR:
            # a task stuck inside a C call never sees the alarm: leave a marker and end the worker (the pool replaces it)
            def die():
                open(os.path.join(_MARK_DIR, "%d.timeout" % i), "w").write(t.name)
                os._exit(1)
            hard = threading.Timer(limit + 120, die)
            hard.daemon = True
            hard.start()
    try:
        import contextlib, io
        with contextlib.redirect_stdout(io.StringIO()):      # rockit has debug prints on some paths
            res = explore(t.fn)
        out["paths"] = res.paths
        out["undecided"] = [u[1] for u in res.undecided]
        out["assumptions"] = sorted(res.assumptions)
        for ob in res.merged():
            d = ob.as_dict()
            d["model"] = ob.model
            d["smt2"] = ob.smt2
            out["obligations"].append(d)
    except BaseException as e:                     # noqa - reported as checker crash
        if type(e).__name__ == "Undecided":
            out["undecided"].append(str(e))
        elif isinstance(e, TaskTimeout):
            out["undecided"].append("task exceeded its wall-clock limit of %d s; it was executing: %s" % (limit, str(e)[-600:]))
        else:
            out["crash"] = "".join(traceback.format_exception(type(e), e, e.__traceback__))[-3000:]
    finally:
        if threading.current_thread() is threading.main_thread():
            signal.alarm(0)
        if hard is not None:
            hard.cancel()
    out["wall_s"] = round(time.time() - t0, 3)
    return out


def run_tasks(tasks, procs=None):
    global _TASKS
    _TASKS = list(tasks)
    procs = procs or int(os.environ.get("VERIF_PROCS", "0")) or min(16, os.cpu_count() or 1)
    if procs <= 1 or len(_TASKS) <= 1:
        return [_run_one(i) for i in range(len(_TASKS))]
    global _MARK_DIR
    import tempfile, shutil
    _MARK_DIR = tempfile.mkdtemp(prefix="verif-tasks.")
    ctx = multiprocessing.get_context("fork")
    try:
        with ctx.Pool(min(procs, len(_TASKS)), maxtasksperchild=8) as pool:
            pending = {i: pool.apply_async(_run_one, (i,)) for i in range(len(_TASKS))}
            results = {}
            while pending:
                for i in list(pending):
                    if pending[i].ready():
                        results[i] = pending.pop(i).get()
                    elif os.path.exists(os.path.join(_MARK_DIR, "%d.timeout" % i)):
                        pending.pop(i)
                        t = _TASKS[i]
                        results[i] = dict(task=t.name, kind=t.kind, functions=t.functions, replay=t.replay, note=t.note, bound=t.bound, obligations=[], paths=0,
                                          undecided=["task exceeded its wall-clock limit of %d s inside a native call; its worker was ended" % _task_limit()],
                                          crash=None, assumptions=[], wall_s=float(_task_limit() + 120))
                if pending:
                    time.sleep(0.05)
            return [results[i] for i in range(len(_TASKS))]
    finally:
        shutil.rmtree(_MARK_DIR, ignore_errors=True)
        _MARK_DIR = None


# ---------------------------------------------------------------------------------------
# known findings
# ---------------------------------------------------------------------------------------
def load_known_findings(prop):
    path = os.path.join(VERIF, "known_findings.txt")
    out = []
    if not os.path.exists(path):
        return out
    for line in open(path):
        line = line.strip()
        if not line.startswith("finding:"):
            continue
        m = re.match(r"finding:\s+property=(\S+)\s+id=(\S+)\s+obligations=(\S+)\s+--\s+(.*)", line)
        if not m:
            continue
        if m.group(1) != prop:
            continue
        out.append(dict(id=m.group(2), patterns=m.group(3).split(";"), text=m.group(4)))
    return out


def file_sha(path):
    try:
        return hashlib.sha256(open(path, "rb").read()).hexdigest()[:16]
    except OSError:
        return None


# ---------------------------------------------------------------------------------------
def native_replay(prop, repo, payload, out_path):
    """run a native harness on the real code; returns its verdict dict"""
    os.makedirs(os.path.dirname(out_path), exist_ok=True)
    env = dict(os.environ)
    env["PYTHONPATH"] = os.pathsep.join([repo, VERIF, os.path.join(VERIF, "out", "nx")])     # out/nx: networkx for SplineMethod (contracts/c17.py:nx_path)
    env["PYTHONDONTWRITEBYTECODE"] = "1"
    py = os.environ.get("VERIF_NATIVE_PY", "/venv/bin/python")
    try:
        p = subprocess.run([py, os.path.join(VERIF, "replay", "run.py")], input=json.dumps(payload), text=True,
                           capture_output=True, timeout=600, env=env, cwd=os.path.join(VERIF, "out"))
        txt = p.stdout.strip().splitlines()
        res = json.loads(txt[-1]) if txt else dict(status="error", detail=p.stderr[-2000:])
        if p.returncode not in (0, 1) and res.get("status") not in ("confirmed", "not-reproduced"):
            res = dict(status="error", detail=(p.stderr or p.stdout)[-2000:])
    except Exception as e:   # noqa
        res = dict(status="error", detail=str(e))
    return res


def _count_backends(results):
    out = {}
    for r in results:
        for o in r["obligations"]:
            out[o["backend"]] = out.get(o["backend"], 0) + 1
    return out


def finish(prop, tier, seed, level, results, t_start, repo, functions_under_contract, explanation,
           trusted_base, assumptions, extra_cov=None, checker_cmd=None):
    """aggregate, print verdict lines, write evidence, return exit code"""
    os.makedirs(os.path.join(VERIF, "out", "replay"), exist_ok=True)
    os.makedirs(os.path.join(VERIF, "evidence"), exist_ok=True)
    known = load_known_findings(prop)
    n_ob = {"proof": 0, "bounded": 0, "enumerated": 0, "structural": 0}
    n_dis = dict(n_ob)
    refuted, unknown, crashes, undecided = [], [], [], []
    samples = []
    per_task = []
    solver_time = 0.0
    for r in results:
        if r["crash"]:
            crashes.append((r["task"], r["crash"]))
        for u in r["undecided"]:
            undecided.append((r["task"], u))
        kind = r["kind"]
        if not r["obligations"] and not r["crash"] and not r["undecided"]:
            crashes.append((r["task"], "task generated zero obligations (vacuity guard)"))
        for ob in r["obligations"]:
            k = kind
            n_ob[k] = n_ob.get(k, 0) + 1
            solver_time += ob.get("time_s", 0)
            if ob["status"] == "discharged":
                n_dis[k] = n_dis.get(k, 0) + 1
            elif ob["status"] == "refuted":
                refuted.append((r, ob))
            else:
                unknown.append((r, ob))
        per_task.append(dict(task=r["task"], kind=kind, obligations=len(r["obligations"]),
                             discharged=sum(1 for o in r["obligations"] if o["status"] == "discharged"),
                             paths=r["paths"], wall_s=r["wall_s"], bound=r["bound"], note=r["note"]))
        for ob in r["obligations"][:1]:
            if len(samples) < 6:
                samples.append(dict(task=r["task"], obligation=ob["name"], status=ob["status"], backend=ob["backend"], detail=ob.get("detail")))

    # known findings / violations
    violations = []
    matched_findings = {}
    for r, ob in list(refuted):
        if ob["name"].startswith("model:"):
            # the assumed dependency contracts disagree with the real dependency: defect of the checker, not of rockit
            crashes.append((r["task"], "dependency-contract validation failed: %s (%s)" % (ob["name"], ob.get("detail"))))
            refuted.remove((r, ob))
    for r, ob in refuted:
        hit = None
        for kf in known:
            if any(fnmatch.fnmatchcase(ob["name"], p) for p in kf["patterns"]):
                hit = kf
                break
        if hit:
            matched_findings.setdefault(hit["id"], (hit, []))[1].append(ob["name"])
        else:
            violations.append((r, ob))
    lines = []
    for fid, (kf, names) in sorted(matched_findings.items()):
        lines.append("KNOWN-FINDING: property=%s %s [%s; %d obligation(s), e.g. %s]" % (prop, kf["text"], fid, len(names), names[0]))
    exit_code = 0
    vio_records = []
    for n, (r, ob) in enumerate(violations):
        rp = os.path.join(VERIF, "out", "replay", "%s-%d.json" % (prop, n))
        rec = dict(property=prop, obligation=ob["name"], task=r["task"], kind=r["kind"], detail=ob.get("detail"),
                   solver_model=ob.get("model"), solver_output="sat (negated obligation satisfiable)", smt2=(ob.get("smt2") or "")[:20000],
                   replay=r.get("replay"))
        tail = ""
        if r.get("replay"):
            payload = dict(r["replay"])
            payload["obligation"] = ob["name"]
            payload["model"] = ob.get("model")
            if ":coupling-rows" in ob["name"]:
                payload["harness"] = "grid_diff"
            payload["seed"] = seed
            res = native_replay(prop, repo, payload, rp)
            rec["native"] = res
            if res.get("status") == "confirmed":
                rec["failing_input"] = res.get("failing_input")
            elif res.get("status") == "no-instance-found":
                tail = " no-failing-input-found"
            elif res.get("status") == "not-reproduced":
                # engine/model disagrees with the real code: that is a defect of the checker
                crashes.append((r["task"], "obligation %s refuted in the model but the real code agrees with the oracle natively: %s" % (ob["name"], res.get("detail"))))
                with open(rp, "w") as f:
                    json.dump(rec, f, indent=1, default=str)
                continue
            else:
                tail = " no-failing-input-found"
        else:
            tail = " no-failing-input-found"
        with open(rp, "w") as f:
            json.dump(rec, f, indent=1, default=str)
        lines.append("VIOLATION property=%s replay=%s%s" % (prop, rp, tail))
        vio_records.append(rec)
        exit_code = 1
        if len(vio_records) >= 12:
            lines.append("... %d further refuted obligations suppressed" % (len(violations) - n - 1))
            break
    n_discharged = sum(n_dis.values())
    if exit_code == 0 and (unknown or undecided) and n_discharged == 0:
        exit_code = 2        # nothing could be decided at all
    # otherwise: undecided obligations (engine limits on restructured code, solver unknowns) are reported below and in the
    # evidence, but the property held on everything that WAS explored -> exit 0 (an undecided obligation is never an alarm)
    if crashes:
        exit_code = 3 if exit_code != 1 else 1
    for ln in lines:
        print(ln)
    for t, u in undecided[:10]:
        print("UNDECIDED task=%s: %s" % (t, u))
    for r, ob in unknown[:10]:
        print("UNDECIDED obligation=%s (%s)" % (ob["name"], ob.get("detail")))
    for t, c in crashes[:5]:
        print("CHECKER-DEFECT task=%s: %s" % (t, c.strip().splitlines()[-1] if c.strip() else c))
        sys.stderr.write(c + "\n")

    total_proof = n_ob.get("proof", 0) + n_ob.get("structural", 0)
    dis_proof = n_dis.get("proof", 0) + n_dis.get("structural", 0)
    cov = dict(
        obligations=total_proof, discharged=dis_proof,
        checker_cmd=checker_cmd or ("./check %s --tier %s" % (prop, tier)),
        trusted_base=trusted_base,
        explanation=explanation,
        bounded=dict(obligations=n_ob.get("bounded", 0), discharged=n_dis.get("bounded", 0),
                     note="same engine, concrete structure parameters (see per_task[].bound); numeric values and user functions universally quantified; NOT counted as proved"),
        enumerated=dict(obligations=n_ob.get("enumerated", 0), discharged=n_dis.get("enumerated", 0)),
        evaluations=sum(n_ob.values()),
        distinct_nontrivial=len({ob["name"] for r in results for ob in r["obligations"]}),
        rule="one case = one named proof obligation generated from the current source of /repo; distinct = distinct obligation names",
        samples=samples,
        backends=_count_backends(results),
        solver_time_s=round(solver_time, 3),
        functions_under_contract=functions_under_contract,
        per_task=per_task,
        known_findings_matched=sorted(matched_findings),
        refuted=[ob["name"] for r, ob in refuted][:50],
        undecided=[u for _, u in undecided][:20] + [ob["name"] for _, ob in unknown][:20],
        paths=sum(r["paths"] for r in results),
        exit_code=exit_code,
    )
    if extra_cov:
        cov.update(extra_cov)
    if level == "proof" and total_proof == 0:
        cov["obligations"], cov["discharged"] = 0, 0     # schema then rejects the record: a proof claim needs discharged proof obligations
    ev = dict(property_id=prop, tier=tier, seed=seed, level=level, coverage=cov,
              assumptions=assumptions, wall_s=round(time.time() - t_start, 2), violations=len(vio_records))
    # VERIF_EVIDENCE_DIR: runs against a scratch tree (seeded-change regression) keep their evidence away from evidence/
    evdir = os.environ.get("VERIF_EVIDENCE_DIR") or os.path.join(VERIF, "evidence")
    os.makedirs(evdir, exist_ok=True)
    with open(os.path.join(evdir, "%s.json" % prop), "w") as f:
        json.dump(ev, f, indent=1, default=str)
    print("%s %s: %d proof obligations (%d discharged), %d bounded (%d), %d enumerated (%d); %d known finding(s); exit %d; %.1fs"
          % (prop, tier, total_proof, dis_proof, n_ob.get("bounded", 0), n_dis.get("bounded", 0), n_ob.get("enumerated", 0),
             n_dis.get("enumerated", 0), len(matched_findings), exit_code, time.time() - t_start))
    return exit_code
