import argparse
import json
import os
import sys
import time

HERE = os.path.dirname(os.path.abspath(__file__))
VERIF = os.path.dirname(HERE)
sys.path.insert(0, VERIF)


def main():
    ap = argparse.ArgumentParser()
    ap.add_argument("prop", nargs="?")
    ap.add_argument("--tier", default=os.environ.get("VERIF_TIER", "quick"))
    ap.add_argument("--repo", default=os.environ.get("VERIF_REPO", "/repo"))
    ap.add_argument("--replay")
    ap.add_argument("--only", help="substring filter on task names (debugging)")
    ap.add_argument("--list", action="store_true")
    ap.add_argument("-v", action="store_true")
    a = ap.parse_args()
    seed = int(os.environ.get("VERIF_SEED", "0"))
    os.environ["VERIF_REPO"] = a.repo
    os.environ["VERIF_TIER"] = a.tier
    os.makedirs(os.path.join(VERIF, "out"), exist_ok=True)
    if a.replay:
        from vc.runner import native_replay
        rec = json.load(open(a.replay))
        if not rec.get("replay"):
            print("replay file carries no native harness (obligation %s): solver output: %s" % (rec.get("obligation"), rec.get("solver_output")))
            print(json.dumps(rec.get("solver_model"), indent=1))
            return 1
        payload = dict(rec["replay"])
        payload["obligation"] = rec["obligation"]
        res = native_replay(rec["property"], a.repo, payload, a.replay + ".rerun")
        print(json.dumps(res, indent=1))
        return 1 if res.get("status") == "confirmed" else 0
    t0 = time.time()
    from vc.boot import boot
    boot(a.repo)
    from contracts import props, meta
    tasks = props.tasks_for(a.prop, a.tier)
    if a.only:
        tasks = [t for t in tasks if a.only in t.name]
    if a.list:
        for t in tasks:
            print(t.kind, t.name)
        return 0
    from vc import runner
    results = runner.run_tasks(tasks)
    if a.v:
        for r in results:
            for ob in r["obligations"]:
                if ob["status"] != "discharged" or a.v:
                    print("  %-10s %s  %s" % (ob["status"], ob["name"], (ob.get("detail") or "")[:160]))
    m = meta.META[a.prop]
    from contracts import manifest_data
    level = manifest_data.CHECKS.get(a.prop, {}).get("category", m["level"])      # evidence level = level claimed in MANIFEST.json
    return runner.finish(a.prop, a.tier, seed, level, results, t0, a.repo,
                         functions_under_contract=meta.functions_with_hashes(a.repo, m["functions"]),
                         explanation=m["explanation"], trusted_base=m["trusted_base"], assumptions=m["assumptions"])


if __name__ == "__main__":
    try:
        sys.exit(main())
    except SystemExit:
        raise
    except BaseException:
        import traceback
        traceback.print_exc()
        sys.exit(3)
