"""
Mechanical instrumentation of the REAL function source for loops over symbolic ranges.

    for TARGET in ITER:                    __it = __vc.iter_of(ITER)
        BODY                               if __vc.symbolic(__it):
                                               __lp = __vc.enter(<ordinal>, __it, __vc.snap(locals(), NAMES))
    becomes                                    (n1, n2, ...) = __lp.state_at_index()      # closed forms at a fresh k
                                               TARGET = __lp.index()
                                               if __lp.body():                             # structural fork
                                                   for __once in (0,):
                                                       BODY
                                                   __lp.step(__vc.snap(locals(), NAMES))   # inv-step obligations; ends the path
                                               (n1, n2, ...) = __lp.state_at_exit()
                                               TARGET = __lp.last_index()
                                           else:
                                               for TARGET in __it:
                                                   BODY

What the extraction changes, exhaustively: the `for` statements as above, nothing else; the
function is compiled from the current source text of /repo on every run.  With a concrete
iterable the instrumented function behaves exactly like the original (else-branch).

The invariant of a loop is given by the sidecar as CLOSED FORMS: state(k, env) -> {name or
'self.attr': value at the start of iteration k}.  Obligations:
   <fn>:inv-init:<name>    value before the loop        == state(0)[name]
   <fn>:inv-step:<name>    value after body from state(k) == state(k+1)[name]     (0 <= k < n, fresh k)
   <fn>:frame:loop<i>      nothing outside the declared names was mutated on `self`
after the loop the state is state(n).  Names assigned in the body but absent from state() are
dead across iterations (POISON: any use is Undecided).
Emissions into the ghost NLP (OptiWrapper.constraints) are compared per iteration with
spec.emits(k, env); after the loop a marker stands for "for all k: emits(k)".
"""
import ast
import inspect
import textwrap
import types

import z3

from .core import ctx, SymInt, SymBool, Undecided, PathEnd, fresh_int, unwrap_int, isolated
from .symlist import SymList, SymRange, REPLACEMENTS


class Poison:
    """value of a variable that is dead across iterations; any use is an engine limit"""
    def __init__(self, name):
        object.__setattr__(self, "_n", name)

    def _die(self, *a, **k):
        raise Undecided("use of '%s', which is not carried by the loop invariant" % object.__getattribute__(self, "_n"))

    __getattr__ = __call__ = __getitem__ = __add__ = __radd__ = __sub__ = __mul__ = __bool__ = __iter__ = __len__ = _die


UNBOUND = object()


class LoopSpec:
    def __init__(self, state=None, emits=None, note=None, after=None, unfold=None):
        self.state = state or (lambda k, env: {})
        self.emits = emits
        self.note = note
        self.after = after
        self.unfold = unfold       # called at the start of the verified iteration: instantiates defining recurrences at k


class Marker:
    """stands in the ghost emission list for: for all k in [0,n): spec.emits(k)"""
    def __init__(self, qual, ordinal, n):
        self.qual, self.ordinal, self.n = qual, ordinal, n

    def __repr__(self):
        return "<forall k<%s: emissions of loop %d of %s>" % (self.n, self.ordinal, self.qual)


SPECS = {}            # (qualname, ordinal) -> LoopSpec
COMPARE = [None]      # function(name, got, expected) recording equality obligations (set by vc.contract)
EMIT_COMPARE = [None] # function(name, got_list, expected_list)
GHOST = [None]        # function(env) -> the ghost emission list (python list) or None


def _attr_get(env, path):
    obj = env[path.split(".")[0]]
    for p in path.split(".")[1:]:
        obj = getattr(obj, p)
    return obj


def _attr_set(env, path, val):
    parts = path.split(".")
    obj = env[parts[0]]
    for p in parts[1:-1]:
        obj = getattr(obj, p)
    setattr(obj, parts[-1], val)


class LoopRT:
    def __init__(self, qual, ordinal, it, names, env):
        self.qual, self.ordinal, self.names, self.env = qual, ordinal, names, dict(env)
        self.spec = SPECS.get((qual, ordinal))
        if self.spec is None:
            raise Undecided("no invariant given for loop %d of %s (symbolic bound)" % (ordinal, qual))
        self.tag = "%s:loop%d" % (qual, ordinal)
        if isinstance(it, SymRange):
            self.start, self.n = it.start, it.length
            self.elem = lambda j: unwrap_int(j + it.start)
        elif isinstance(it, SymList):
            self.start, self.n = 0, it.length
            self.elem = lambda j: it[j]
        else:
            raise Undecided("symbolic iterable of type %s" % type(it).__name__)
        c = ctx()
        self.tag = "%s:loop%d" % (qual, ordinal)
        # inv-init
        st0 = self.spec.state(0, self.env)
        self.heap_names = [n for n in st0 if "." in n]
        for name, want in st0.items():
            have = _attr_get(self.env, name) if "." in name else self.env.get(name, UNBOUND)
            if have is UNBOUND:
                if "." not in name and name not in self.names:
                    # the sidecar invariant names a local that this version of the function does not have (renamed /
                    # restructured code): the contract is out of date -> undecided, never a violation
                    raise Undecided("invariant of %s refers to local '%s', which the function does not assign in this loop" % (self.tag, name))
                c.fail("%s:inv-init:%s" % (self.tag, name), "variable is unbound before the loop")
            else:
                isolated(lambda: COMPARE[0]("%s:inv-init:%s" % (self.tag, name), have, want), self.tag)
        self.ghost = GHOST[0](self.env) if GHOST[0] else None
        self.ghost_len0 = len(self.ghost) if self.ghost is not None else 0
        self.self_snapshot = self._snapshot()
        self.k = None

    def _snapshot(self):
        snap = {}
        for root in ("self",):
            obj = self.env.get(root)
            if obj is None:
                continue
            for a, v in vars(obj).items():
                if isinstance(v, list):
                    snap[(root, a)] = ("list", id(v), [id(x) for x in v])
                elif isinstance(v, SymList):
                    snap[(root, a)] = ("symlist", id(v), v.length if isinstance(v.length, int) else v.length.z.get_id(), id(v._get))
                else:
                    snap[(root, a)] = ("obj", id(v))
        return snap

    def _frame_check(self, label):
        now = self._snapshot()
        declared = {tuple(n.split(".", 1)) for n in self.heap_names}
        changed = [k for k in set(now) | set(self.self_snapshot) if now.get(k) != self.self_snapshot.get(k) and k not in declared]
        if changed:
            raise Undecided("%s: loop body mutates %s, which the invariant does not declare" % (label, sorted(".".join(k) for k in changed)))

    # -- protocol used by the generated code ------------------------------------------
    def state_at_index(self):
        c = ctx()
        n = self.n
        if isinstance(n, SymInt):
            c.assume(n.z >= 0)      # the exit path with n<0 is the n==0 case (python range semantics)
        self.k = fresh_int("k%d" % self.ordinal)
        return None

    def body(self):
        """structural fork: True = verify one arbitrary iteration, False = continue after the loop"""
        c = ctx()
        take_body = c.choose(2) == 0
        if take_body:
            c.assume((self.k >= 0).z)
            c.assume((self.k < self.n).z)
            st = self.spec.state(self.k, self.env)
            self._install(st)
            if self.spec.unfold:
                self.spec.unfold(self.k, self.env)
            c.loop_ctx.append((self.tag, self.k, {"n": 0}))
            if self.ghost is not None:
                self.ghost_mark = len(self.ghost)
        return take_body

    def _install(self, st):
        self.installed = {}
        for name in self.names:
            if name in st:
                self.installed[name] = st[name]
            else:
                self.installed[name] = Poison(name)
        for name, v in st.items():
            if "." in name:
                _attr_set(self.env, name, v)
        self.self_snapshot = self._snapshot()

    def values(self):
        return tuple(self.installed[n] for n in self.names)

    def index(self):
        return self.elem(self.k)

    def step(self, env):
        c = ctx()
        if c.loop_ctx and c.loop_ctx[-1][0] == self.tag:
            c.loop_ctx.pop()
        k1 = unwrap_int(self.k + 1)
        want = self.spec.state(k1, self.env)
        for name, w in want.items():
            have = _attr_get(self.env, name) if "." in name else env.get(name, UNBOUND)
            if have is UNBOUND or isinstance(have, Poison):
                c.fail("%s:inv-step:%s" % (self.tag, name), "variable not assigned by the body")
            else:
                isolated(lambda: COMPARE[0]("%s:inv-step:%s" % (self.tag, name), have, w), self.tag)
        self._frame_check("inv-step")
        if self.ghost is not None:
            got = self.ghost[self.ghost_mark:]
            if self.spec.emits is not None:
                isolated(lambda: EMIT_COMPARE[0]("%s:emits" % self.tag, got, self.spec.emits(self.k, dict(self.env, **env))), self.tag)
            elif got:
                c.fail("%s:emits" % self.tag, "loop body emits %d constraint(s) but the contract declares none" % len(got))
        raise PathEnd()

    def exit(self):
        st = self.spec.state(self.n if not isinstance(self.n, SymInt) else self.n, self.env)
        # python leaves the loop variable at its last value; with n==0 it stays unbound: treat as poison
        self._install(st)
        if self.ghost is not None:
            del self.ghost[self.ghost_len0:]
            if self.spec.emits is not None:
                self.ghost.append(Marker(self.qual, self.ordinal, self.n))
        if self.spec.after:
            self.spec.after(self.env)

    def last_index(self):
        return Poison("loop variable after a symbolic loop")


class _RT:
    """namespace injected as __vc into instrumented functions"""
    @staticmethod
    def iter_of(it):
        return it

    @staticmethod
    def symbolic(it):
        if isinstance(it, SymRange):
            return isinstance(it.length, SymInt)
        if isinstance(it, SymList):
            return isinstance(it.length, SymInt)
        return False

    @staticmethod
    def concrete(it):
        if isinstance(it, SymRange):
            return range(it.start, it.stop)
        if isinstance(it, SymList):
            return [it[i] for i in range(it.length)]
        return it

    @staticmethod
    def snap(loc, names):
        return dict(loc)

    @staticmethod
    def listcomp(it, fn, qual, ordinal):
        if not _RT.symbolic(it):
            return [fn(x) for x in _RT.concrete(it)]
        if isinstance(it, SymRange):
            n, elem = it.length, (lambda j: unwrap_int(j + it.start))
        else:
            n, elem = it.length, (lambda j: it[j])
        tag = "%s:comp%d" % (qual, ordinal)

        def get(j):
            c = ctx()
            c.loop_ctx.append((tag, j, {"n": 0}))
            try:
                return fn(elem(j))
            finally:
                c.loop_ctx.pop()
        return SymList(n, get, "comp%d" % ordinal)

    @staticmethod
    def enter(qual, ordinal, it, names, env):
        return LoopRT(qual, ordinal, it, names, env)


class _Transformer(ast.NodeTransformer):
    def __init__(self, qual):
        self.qual = qual
        self.ordinal = 0
        self.report = []

    def visit_FunctionDef(self, node):
        if getattr(self, "_top", None) is None:
            self._top = node
            self.generic_visit(node)
            return node
        return node     # nested defs are left alone

    def visit_ListComp(self, node):
        """[ELT for NAME in ITER]  ->  __vc.listcomp(ITER, lambda NAME: ELT, qual, ordinal): with a symbolic ITER the result is a
        list of symbolic length whose member j is ELT evaluated for element j (creation of Opti symbols inside ELT yields
        the j-th member of a family, one family per creation site); with a concrete ITER it is the ordinary list."""
        self.generic_visit(node)
        if len(node.generators) != 1:
            return node
        g = node.generators[0]
        if g.ifs or g.is_async or not isinstance(g.target, ast.Name):
            return node
        ordinal = getattr(self, "comp_ordinal", 0)
        self.comp_ordinal = ordinal + 1
        lam = ast.Lambda(args=ast.arguments(posonlyargs=[], args=[ast.arg(arg=g.target.id)], kwonlyargs=[], kw_defaults=[], defaults=[]), body=node.elt)
        call = ast.Call(func=ast.Attribute(value=ast.Name(id="__vc", ctx=ast.Load()), attr="listcomp", ctx=ast.Load()),
                        args=[g.iter, lam, ast.Constant(self.qual), ast.Constant(ordinal)], keywords=[])
        self.report.append(dict(comprehension=ordinal, line=node.lineno, target=g.target.id))
        return ast.copy_location(call, node)

    def visit_For(self, node):
        ordinal = self.ordinal
        self.ordinal += 1
        self.generic_visit(node)          # inner loops first (they get later ordinals: pre-order numbering)
        if node.orelse:
            return node
        names = {n.id for n in ast.walk(node) if isinstance(n, ast.Name) and isinstance(n.ctx, ast.Store)}
        # local containers mutated in place (x.append(..), x[i] = ..) are carried as well
        for n in ast.walk(node):
            if isinstance(n, ast.Call) and isinstance(n.func, ast.Attribute) and isinstance(n.func.value, ast.Name) \
                    and n.func.attr in ("append", "extend", "insert", "pop", "remove", "clear", "update", "setdefault"):
                names.add(n.func.value.id)
            if isinstance(n, (ast.Subscript, ast.Attribute)) and isinstance(n.ctx, ast.Store) and isinstance(n.value, ast.Name):
                names.add(n.value.id)
        names -= {"self", "stage", "opti"}
        names = sorted(names)
        tnames = sorted({n.id for n in ast.walk(node.target) if isinstance(n, ast.Name)})
        carried = [n for n in names if n not in tnames]
        bad = any(isinstance(n, (ast.Break, ast.Return, ast.Yield, ast.YieldFrom)) for st in node.body for n in ast.walk(st)
                  if not isinstance(n, (ast.FunctionDef, ast.Lambda)))
        self.report.append(dict(ordinal=ordinal, line=node.lineno, carried=carried, target=tnames, unsupported_when_symbolic=bad))
        it = "__it%d" % ordinal
        lp = "__lp%d" % ordinal
        names_tuple = "(" + "".join("%r, " % n for n in carried) + ")"
        lhs = ("(" + "".join("%s, " % n for n in carried) + ")") if carried else None
        src = []
        src.append("%s = __vc.iter_of(None)" % it)
        src.append("if __vc.symbolic(%s):" % it)
        if bad:
            src.append("    raise __vc_Undecided('loop %d of %s has break/return/yield and a symbolic bound')" % (ordinal, self.qual))
        src.append("    %s = __vc.enter(%r, %d, %s, %s, __vc.snap(locals(), %s))" % (lp, self.qual, ordinal, it, names_tuple, names_tuple))
        src.append("    %s.state_at_index()" % lp)
        src.append("    if %s.body():" % lp)
        if lhs:
            src.append("        %s = %s.values()" % (lhs, lp))
        src.append("        __TARGET__ = %s.index()" % lp)
        src.append("        for __once%d in (0,):" % ordinal)
        src.append("            pass")
        src.append("        %s.step(__vc.snap(locals(), %s))" % (lp, names_tuple))
        src.append("    %s.exit()" % lp)
        if lhs:
            src.append("    %s = %s.values()" % (lhs, lp))
        src.append("else:")
        src.append("    for __TARGET__ in __vc.concrete(%s):" % it)
        src.append("        pass")
        tree = ast.parse("\n".join(src)).body
        # fill in ITER, TARGET, BODY
        tree[0].value.args = [node.iter]
        if_node = tree[1]
        body_if = next(n for n in if_node.body if isinstance(n, ast.If))
        for i, st in enumerate(body_if.body):
            if isinstance(st, ast.Assign) and isinstance(st.targets[0], ast.Name) and st.targets[0].id == "__TARGET__":
                st.targets = [_store(node.target)]
            if isinstance(st, ast.For) and isinstance(st.target, ast.Name) and st.target.id.startswith("__once"):
                st.body = node.body
        else_for = if_node.orelse[0]
        else_for.target = _store(node.target)
        else_for.body = node.body
        for n in tree:
            ast.copy_location(n, node)
            ast.fix_missing_locations(n)
        return tree


def _store(t):
    import copy
    t = copy.deepcopy(t)
    for n in ast.walk(t):
        if hasattr(n, "ctx"):
            n.ctx = ast.Store()
    return t


_CACHE = {}


def instrument(func, qual):
    """return (instrumented function, report) built from the current source of func"""
    func = getattr(func, "__func__", func)
    key = (func.__code__.co_filename, func.__code__.co_firstlineno, qual)
    src = textwrap.dedent(inspect.getsource(func))
    tree = ast.parse(src)
    fdef = tree.body[0]
    fdef.decorator_list = []
    tr = _Transformer(qual)
    tr.visit(tree)
    ast.fix_missing_locations(tree)
    code = compile(tree, func.__code__.co_filename, "exec")
    glb = func.__globals__
    ns = {}
    glb["__vc"] = _RT
    glb["__vc_Undecided"] = Undecided
    exec(code, glb, ns)
    new = ns[fdef.name]
    new.__vc_report__ = tr.report
    new.__vc_original__ = func
    return new, tr.report


def install_builtins(*modules):
    """shadow range/len/list/... (and numpy.linspace) in the rockit modules by versions that
    understand symbolic sizes"""
    from .symlist import NumpyProxy
    for m in modules:
        for k, v in REPLACEMENTS.items():
            setattr(m, k, v)
        if hasattr(m, "np") and not isinstance(m.np, NumpyProxy):
            m.np = NumpyProxy()


class patched:
    """context manager: replace Class.method by its instrumented version"""
    def __init__(self, cls, name, qual=None):
        self.cls, self.name = cls, name
        self.qual = qual or "%s.%s" % (cls.__name__, name)

    def __enter__(self):
        self.orig = self.cls.__dict__[self.name]
        new, self.report = instrument(self.orig, self.qual)
        setattr(self.cls, self.name, new)
        return self

    def __exit__(self, *a):
        setattr(self.cls, self.name, self.orig)
