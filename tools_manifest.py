#!/usr/bin/env python3
"""Generates MANIFEST.json from contracts/manifest_data.py (kept in one place so it stays valid)."""
import json, os, sys
HERE = os.path.dirname(os.path.abspath(__file__))
sys.path.insert(0, HERE)
from contracts import manifest_data as md

def main():
    checks = []
    for pid, c in sorted(md.CHECKS.items()):
        checks.append(dict(
            property_id=pid,
            quick_cmd="./check %s --tier quick" % pid,
            thorough_cmd="./check %s --tier thorough" % pid,
            evidence_file="evidence/%s.json" % pid,
            replay_cmd_template="./check --replay {path}",
            engine="vc",
            level_claimed=dict(category=c["category"], text=c["text"], design_ref=c.get("design_ref", "DESIGN.md section 7")),
            level_note=c["note"],
            technique=c["technique"]))
    man = dict(
        version=1,
        setup_cmd="./setup.sh",
        hooks=dict(guard="ROCKIT_VERIF", enable="none needed: contracts live in /verif/contracts (sidecar), the rockit sources are imported unmodified", 
                   baseline_off_cmd="cd /repo && /venv/bin/python -m pytest -ra -q -p no:cacheprovider --timeout=900 --continue-on-collection-errors",
                   source_commits=md.HOOK_COMMITS, add_only=True),
        engines=[dict(name="vc", path="vc/", serves_properties=sorted(md.CHECKS), kind_free_text="VC generator: real rockit functions executed by CPython on a z3-backed model of CasADi; symbolic ints fork by re-execution; loops over symbolic ranges cut by sidecar invariants; obligations discharged by z3 (cvc5 second opinion in the thorough tier); native replays on real CasADi")],
        checks=checks,
        notes=md.NOTES,
        not_applicable=[dict(property_id=k, reason=v) for k, v in sorted(md.NOT_APPLICABLE.items())])
    json.dump(man, open(os.path.join(HERE, "MANIFEST.json"), "w"), indent=1)
    print("MANIFEST.json: %d checks, %d not applicable" % (len(checks), len(man["not_applicable"])))

main()
