"""
Native re-execution of a bounded task function: the SAME task code (contracts/cXX.py) that the engine runs on the casadi
model is run under /venv/bin/python on the real CasADi and the real rockit.  The engine-only modules (z3, vc.*) are replaced
by shims: obligations are decided NUMERICALLY (both sides evaluated at random values of every symbol they contain), which
is what a replay is for -- producing a failing input on the real code, not a proof.
Task code that touches model-only entry points (ca.tz, ca._consts, opti._g, z3 terms ...) is not replayable: the harness
then answers status=error and the violation keeps the words no-failing-input-found.
"""
import sys
import types

import numpy as np


class NotReplayable(Exception):
    pass


class Undecided(BaseException):
    def __init__(self, *a):
        BaseException.__init__(self, *a)

    def acknowledge(self):
        pass


class PathEnd(BaseException):
    pass


class Ob:
    def __init__(self, name, status, detail=None):
        self.name, self.status, self.detail = name, status, detail


class NativeCtx:
    def __init__(self):
        self.obligations, self.trace, self.subst = [], [], {}

    def prove(self, name, cond, detail=None, **k):
        if not isinstance(cond, (bool, np.bool_)):
            raise NotReplayable("symbolic condition in %s" % name)
        self.obligations.append(Ob(name, "discharged" if cond else "refuted", detail))
        return bool(cond)

    def fail(self, name, detail="", **k):
        self.obligations.append(Ob(name, "refuted", detail))

    def ok(self, name, detail=None, **k):
        self.obligations.append(Ob(name, "discharged", detail))

    def unknown(self, name, detail="", **k):
        self.obligations.append(Ob(name, "unknown", detail))

    def assume(self, *a, **k):
        pass

    def normalize(self, t):
        return t


_CTX = [NativeCtx()]


def ctx():
    return _CTX[0]


def reset():
    _CTX[0] = NativeCtx()
    return _CTX[0]


def _not_replayable(name):
    def f(*a, **k):
        raise NotReplayable(name)
    return f


class _Z3(types.ModuleType):
    def __getattr__(self, name):
        if name.startswith("__"):
            raise AttributeError(name)
        return _not_replayable("z3." + name)


class Task:
    def __init__(self, name, fn, kind="bounded", **kw):
        self.name, self.fn, self.kind = name, fn, kind
        self.__dict__.update(kw)


def install():
    if "z3" not in sys.modules:
        sys.modules["z3"] = _Z3("z3")
    vc = types.ModuleType("vc"); vc.__path__ = []
    core = types.ModuleType("vc.core")
    core.ctx, core.Undecided, core.PathEnd = ctx, Undecided, PathEnd
    core.isolated = lambda fn, tag=None: fn()
    for n in ("fresh_int", "fresh_real", "SymInt", "SymBool", "SymReal", "explore", "_zr"):
        setattr(core, n, _not_replayable("vc.core." + n))
    core.unwrap_int = lambda v: v
    core.Obligation = Ob
    runner = types.ModuleType("vc.runner"); runner.Task = Task
    symlist = types.ModuleType("vc.symlist")
    for n in ("SymList", "SymRange", "vc_len", "REPLACEMENTS"):
        setattr(symlist, n, _not_replayable("vc.symlist." + n))
    loops = types.ModuleType("vc.loops"); contract = types.ModuleType("vc.contract")
    vc.core, vc.runner, vc.symlist, vc.loops, vc.contract = core, runner, symlist, loops, contract
    sys.modules.update({"vc": vc, "vc.core": core, "vc.runner": runner, "vc.symlist": symlist, "vc.loops": loops, "vc.contract": contract})
