"""Native (real CasADi + real rockit) check of DensityGrid / DenseEdgesGrid / FunctionGrid node locations (C06):
density-equidistributed means  (integral_0^{n_i} rho) / (integral_0^1 rho) = i/N ; the nodes depend on the grid object's
own density only (several grid objects in one process, two construction orders)."""
import json
import numpy as np


def main():
    import casadi as ca
    from rockit.sampling_method import DensityGrid, DenseEdgesGrid, FunctionGrid
    out = []
    tau = ca.MX.sym("tau")
    dens = [("1+tau", 1 + tau, lambda s: s + s ** 2 / 2), ("1+3tau^2", 1 + 3 * tau ** 2, lambda s: s + s ** 3), ("exp(2tau)", ca.exp(2 * tau), lambda s: (np.exp(2 * s) - 1) / 2),
            ("2-tau", 2 - tau, lambda s: 2 * s - s ** 2 / 2)]
    first = {}
    for order in (dens, list(reversed(dens))):
        for name, rho, cum in order:
            for N in (1, 2, 5, 8):
                g = DensityGrid(rho)
                n = [float(v) for v in g.normalized(N)]
                want = [i / N for i in range(N + 1)]
                got = [cum(v) / cum(1.0) for v in n]
                ok = len(n) == N + 1 and n[0] == 0 and abs(n[-1] - 1) < 1e-12 and all(a < b for a, b in zip(n, n[1:])) and max(abs(a - b) for a, b in zip(got, want)) < 1e-5
                key = (name, N)
                if key not in first:
                    first[key] = n
                    out.append(dict(what="density-grid-nodes-equidistribute-the-density", grid="DensityGrid(%s)" % name, N=N, ok=bool(ok),
                                    detail="nodes %s: cumulative density %s, expected %s" % (np.round(n, 5).tolist(), np.round(got, 5).tolist(), np.round(want, 5).tolist())))
                else:
                    same = np.allclose(n, first[key], rtol=0, atol=1e-12) and ok
                    out.append(dict(what="density-grid-nodes-independent-of-other-grid-objects", grid="DensityGrid(%s)" % name, N=N, ok=bool(same),
                                    detail="nodes of a second object built after grids of other densities: %s (first object: %s)" % (np.round(n, 5).tolist(), np.round(first[key], 5).tolist())))
    # DenseEdgesGrid: symmetric, denser at the edges, different parameters give different grids in one process
    for mult, frac in ((10, 0.1), (3, 0.3)):
        for N in (4, 8):
            g = DenseEdgesGrid(multiplier=mult, edge_frac=frac)
            n = np.array([float(v) for v in g.normalized(N)])
            h = np.diff(n)
            ok = len(n) == N + 1 and n[0] == 0 and abs(n[-1] - 1) < 1e-12 and np.all(h > 0) and np.allclose(h, h[::-1], atol=1e-4) and h[0] < h[(N - 1) // 2] + 1e-9
            # equidistribution against a fine numerical integral of the grid's own density
            s = np.linspace(0, 1, 20001)
            rho = np.array(ca.Function("r", [g.t], [g.density])(s.reshape(1, -1))).reshape(-1)
            cumv = np.concatenate([[0], np.cumsum((rho[1:] + rho[:-1]) / 2 * np.diff(s))])
            got = np.interp(n, s, cumv) / cumv[-1]
            ok = ok and np.max(np.abs(got - np.arange(N + 1) / N)) < 1e-4
            out.append(dict(what="dense-edges-grid-equidistributes-its-density", grid="DenseEdgesGrid(multiplier=%s, edge_frac=%s)" % (mult, frac), N=N, ok=bool(ok),
                            detail="nodes %s cumulative %s" % (np.round(n, 4).tolist(), np.round(got, 4).tolist())))
    # FunctionGrid: the user's normalised locations
    f = lambda N: [(i / N) ** 2 for i in range(N + 1)]
    for N in (1, 3, 6):
        try:
            g = FunctionGrid(f)
            n = [float(v) for v in g.normalized(N)]
            ok = np.allclose(n, f(N), atol=1e-14)
            out.append(dict(what="function-grid-nodes-are-the-users", grid="FunctionGrid((i/N)^2)", N=N, ok=bool(ok), detail="nodes %s" % np.round(n, 5).tolist()))
        except Exception as e:
            out.append(dict(what="function-grid-nodes-are-the-users", grid="FunctionGrid((i/N)^2)", N=N, ok=False, detail="%s: %s" % (type(e).__name__, str(e)[:100])))
    return out


if __name__ == "__main__":
    print(json.dumps(main()))
