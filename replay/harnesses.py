"""Further native harnesses (real CasADi, real rockit)."""
import contextlib
import traceback
import io
import re
from fractions import Fraction

import numpy as np


def _val(s):
    s = str(s).replace("?", "")
    try:
        return float(Fraction(s))
    except Exception:
        return float(s)


def _apply_model_to_unknowns(model):
    """numeric unknowns of the engine (scale_*, pval_*, horizon_*) take the solver's values"""
    from contracts import backend
    table = {}
    for k, v in (model or {}).items():
        m = re.match(r"^(.*)_(\d+)$", k)
        if m and not k.startswith("opti"):
            table.setdefault(m.group(1), {})[int(m.group(2))] = _val(v)
    orig = backend.unknown

    def unknown(name, n=1, m=1, positive=False):
        d = orig(name, n, m, positive)
        if name in table:
            import casadi as ca
            a = np.array(d).reshape(-1, order="F")
            for i, v in table[name].items():
                if i < len(a):
                    a[i] = v
            return ca.DM(a.reshape((n, m), order="F"))
        return d
    backend.unknown = unknown
    import contracts.spec as sp
    sp.unknown = unknown


def _x_from_model(opti, model, rs):
    import casadi as ca
    x = rs.uniform(0.3, 1.4, size=opti.x.numel())
    offs, off = {}, 0
    for s in opti.advanced.symvar():
        nm = s.name()
        m = re.match(r"opti\d+_x_(\d+)$", nm)
        if m:
            offs[int(m.group(1))] = off
            off += s.numel()
    for k, v in (model or {}).items():
        m = re.match(r"opti\d+_x_(\d+)#\d+_(\d+)$", k)
        if m and int(m.group(1)) in offs:
            x[offs[int(m.group(1))] + int(m.group(2))] = _val(v)
    return x


def grid_diff(p):
    """C06: a point that satisfies every time-grid row of the real NLP but whose control grid is
    not the declared partition (or violates min/max)."""
    import casadi as ca
    from contracts import catalog
    _apply_model_to_unknowns(p.get("model"))
    spec = catalog.find(p["prop"], p["label"])()
    with contextlib.redirect_stdout(io.StringIO()):
        spec.build()
        meth = spec.transcribe()
    opti = spec.opti
    rs = np.random.RandomState(p.get("seed", 0))
    x = _x_from_model(opti, p.get("model"), rs)
    par = opti.p
    pv = np.array(opti.debug.value(par, opti.value_parameters())).reshape(-1) if par.numel() else np.zeros(0)
    tv = [ca.MX(e) for e in list(getattr(meth, "T_local", [])) + list(getattr(meth, "t0_local", [])) + [meth.T, meth.t0] if e is not None]
    tsyms = [s for e in tv for s in ca.symvar(e)]
    cg = ca.vec(ca.MX(meth.control_grid))
    F = ca.Function("F", [opti.x, par], [opti.g, opti.lbg, opti.ubg, cg, ca.MX(meth.T), ca.MX(meth.t0)])
    J = ca.Function("J", [opti.x, par], [ca.jacobian(opti.g, opti.x)])
    g, lb, ub, ts, T, t0 = [np.array(v).reshape(-1) for v in F(x, pv)]
    Jsp = np.array(J(x, pv).sparsity()) if False else np.array(ca.DM(J.sparsity_out(0), 1))
    xs = opti.x
    tmask = np.zeros(xs.numel(), bool)
    dep = ca.Function("d", [opti.x], [ca.vcat(tsyms) if tsyms else ca.MX(0, 1)])
    if tsyms:
        dsp = np.array(ca.DM(ca.jacobian(ca.vcat([ca.vec(s) for s in tsyms]), opti.x).sparsity(), 1))
        tmask = dsp.sum(axis=0) > 0
    time_rows = [i for i in range(len(g)) if Jsp[i].sum() > 0 and not np.any(Jsp[i][~tmask])]
    tol = 1e-8
    infeasible = [i for i in time_rows if g[i] < lb[i] - tol or g[i] > ub[i] + tol]
    grid = spec.grid
    N = spec.N
    h = np.diff(ts)
    viol = []
    if abs(ts[0] - t0[0]) > tol:
        viol.append("grid does not start at t0")
    if abs(ts[-1] - (t0[0] + T[0])) > 1e-7 * (1 + abs(T[0])):
        viol.append("grid does not end at t0+T (%g vs %g)" % (ts[-1], t0[0] + T[0]))
    kind = grid.get("kind", "uniform")
    if kind == "uniform" and np.max(np.abs(h - h[0])) > 1e-7:
        viol.append("intervals not equal: %s" % h.tolist())
    if kind == "geometric":
        gr = meth.time_grid.growth_factor(N)
        for k in range(N - 1):
            if abs(h[k + 1] - gr * h[k]) > 1e-7 * (1 + abs(h[k])):
                viol.append("interval ratio %d: %g != %g*%g" % (k, h[k + 1], gr, h[k]))
    lo, hi = grid.get("min", 0), grid.get("max", float("inf"))
    for k in range(N):
        if h[k] < lo - 1e-9 or h[k] > hi + 1e-9:
            viol.append("interval %d has length %g outside [%g, %g]" % (k, h[k], lo, hi))
    inst = spec.describe()
    if not infeasible and viol:
        return dict(status="confirmed", failing_input=dict(instance=inst, x=x.tolist(), p=pv.tolist()),
                    observed=dict(control_grid=ts.tolist(), time_rows=len(time_rows), all_time_rows_satisfied=True, violations=viol),
                    expected="every point satisfying the grid's own constraints has the declared partition and respects min/max")
    if infeasible and not viol:
        return dict(status="confirmed", failing_input=dict(instance=inst, x=x.tolist(), p=pv.tolist()),
                    observed=dict(control_grid=ts.tolist(), violated_time_rows=infeasible),
                    expected="a grid that is the declared partition satisfies every grid row of the NLP")
    return dict(status="not-reproduced", detail="time rows violated: %s; spec violations: %s" % (infeasible, viol), instance=inst)


def history_diff(p):
    """C13: the OCP reached through a history against the freshly written OCP with the final specification,
    on the real code: NLP functions at random points, starting point, parameter values, solver."""
    import casadi as ca
    from contracts.histories import histories
    with contextlib.redirect_stdout(io.StringIO()):
        a, b = histories()[p["history"]](p["method"])
        a._transcribed
        b._transcribed
    oa, ob = a._augmented._method.opti, b._augmented._method.opti
    probs = []
    if oa.x.shape != ob.x.shape or oa.p.shape != ob.p.shape or oa.g.shape != ob.g.shape:
        probs.append("problem sizes differ: x %s/%s p %s/%s g %s/%s" % (oa.x.shape, ob.x.shape, oa.p.shape, ob.p.shape, oa.g.shape, ob.g.shape))
    else:
        rs = np.random.RandomState(p.get("seed", 0))
        Fa = ca.Function("Fa", [oa.x, oa.p], [oa.f, oa.g, oa.lbg, oa.ubg])
        Fb = ca.Function("Fb", [ob.x, ob.p], [ob.f, ob.g, ob.lbg, ob.ubg])
        pa = np.array(oa.debug.value(oa.p, oa.value_parameters())).reshape(-1) if oa.p.numel() else np.zeros(0)
        pb = np.array(ob.debug.value(ob.p, ob.value_parameters())).reshape(-1) if ob.p.numel() else np.zeros(0)
        if not np.allclose(pa, pb, equal_nan=True):
            probs.append("parameter values differ: %s vs fresh %s" % (pa.tolist(), pb.tolist()))
        for _ in range(2):
            xv = rs.uniform(0.3, 1.4, size=oa.x.numel())
            ra = [np.array(v).reshape(-1) for v in Fa(xv, pb)]
            rb = [np.array(v).reshape(-1) for v in Fb(xv, pb)]
            for nm, u, v in zip(("objective", "g", "lbg", "ubg"), ra, rb):
                if not np.allclose(u, v, rtol=1e-9, atol=1e-9, equal_nan=True):
                    probs.append("%s differs from the fresh OCP's at x=%s" % (nm, np.round(xv, 3).tolist()))
                    break
        ia = np.array(oa.debug.value(oa.x, oa.initial())).reshape(-1)
        ib = np.array(ob.debug.value(ob.x, ob.initial())).reshape(-1)
        if not np.allclose(ia, ib):
            probs.append("starting point differs: %s vs fresh %s" % (np.round(ia, 4).tolist(), np.round(ib, 4).tolist()))
    sa = (a._augmented._method._solver, a._augmented._method._solver_options)
    sb = (b._augmented._method._solver, b._augmented._method._solver_options)
    if sa != sb:
        probs.append("solver settings differ: %r vs fresh %r" % (sa, sb))
    if probs:
        return dict(status="confirmed", failing_input=dict(history=p["history"], method=p["method"]), problems=probs)
    return dict(status="not-reproduced", detail="history and fresh OCP agree on the real code")


def fault_probe(p):
    """C20: does the real code reject the ill-posed specification (at the latest in solve)?"""
    from contracts.faults import faults
    try:
        with contextlib.redirect_stdout(io.StringIO()):
            ocp = faults()[p["fault"]](p["method"])
            if ocp is None:
                return dict(status="not-reproduced", detail="fault not applicable for this method")
            ocp.solve()
    except Exception as e:
        if "return_success" in str(e):
            # Opti::solve raised AFTER the NLP solver ran and reported failure: the NLP was handed to the solver
            return dict(status="confirmed", failing_input=dict(fault=p["fault"], method=p["method"]),
                        observed="declared and transcribed without any exception; the NLP was handed to the solver (which then failed: %s)" % str(e)[-120:],
                        expected="an exception at declaration or at the latest before the solver is called")
        return dict(status="not-reproduced", detail="rejected with %s: %s" % (type(e).__name__, str(e)[:150]))
    return dict(status="confirmed", failing_input=dict(fault=p["fault"], method=p["method"]),
                observed="declared, transcribed and solved without any exception", expected="an exception at declaration or at the latest in solve()")


def der_probe(p):
    """C16: Stage.der against an independent AD evaluation of the chain rule on the real code"""
    import casadi as ca
    from rockit import Ocp
    from contracts.backend import ufun
    nx, td = p.get("nx", 2), p.get("td", True)
    ocp = Ocp(T=1.0)
    xs = [ocp.state() for _ in range(nx)]
    u = ocp.control(); par = ocp.parameter(); v = ocp.variable()
    x = ca.vertcat(*xs)
    f = ufun("f", nx, [x, u, par, v] + ([ocp.t] if td else []))
    for i, xi in enumerate(xs):
        ocp.set_der(xi, f[i])
    exprs = dict(e=ufun("e", 2, [x, par]), g=ufun("g", 1, [x, ocp.t, par]), h=xs[0] * xs[-1] + ocp.t * xs[0] + par * ocp.t * ocp.t)
    for i in range(nx):
        exprs["x%d" % i] = xs[i]
    rs = np.random.RandomState(p.get("seed", 0))
    bad = []
    for name, e in exprs.items():
        try:
            d = ocp.der(e)
        except Exception as ex:
            bad.append(dict(expression=name, observed="raises %s" % str(ex)[:100]))
            continue
        want = ca.mtimes(ca.jacobian(e, x), f) + ca.jacobian(e, ocp.t)
        F = ca.Function("F", [x, u, par, v, ocp.t], [d, want])
        for _ in range(3):
            args = [rs.uniform(-1, 1, size=a.numel()) for a in (x, u, par, v, ocp.t)]
            a, b = [np.array(r).reshape(-1) for r in F(*args)]
            if not np.allclose(a, b, rtol=1e-9, atol=1e-9):
                bad.append(dict(expression=name, point=[q.tolist() for q in args], observed=a.tolist(), expected=b.tolist()))
                break
    if bad:
        return dict(status="confirmed", failing_input=dict(nx=nx, time_varying_ode=td), problems=bad)
    return dict(status="not-reproduced", detail="der() equals the chain rule for %d expressions" % len(exprs))


def clone_probe(p):
    """C12: two clones of a template against two stages declared directly with the same content, on the real code"""
    import casadi as ca
    from rockit import Ocp, FreeTime
    from contracts.spec import Spec, E, Con
    method, ok, ode_t = p["method"], p["objective"], p.get("ode_t", False)
    obj = {"mayer": [("at_tf", E("Mf", 1, ("x", "T", "t0")))], "sum": [("sum", E("S", 1, ("x", "u")))],
           "integral": [("integral", E("L", 1, ("x", "u")))], "integral-t": [("integral", E("Lt", 1, ("x", "u", "t")))],
           "quad-state": [("integral", E("L", 1, ("x", "u")))]}[ok]
    def spec(T, t0):
        return Spec(method=method, N=2, M=1, degree=2, T=T, t0=t0, states=[2], params={"": [1]},
                    ode=E("f", None, ("x", "u", "t", "p") if ode_t else ("x", "u", "p")),
                    constraints=[Con(E("c1", 1, ("x", "u", "t", "T", "t0")), "le", 1.0), Con(E("b0", 2, (("at", "t0", "x"),)), "eq", 0.0),
                                 Con(E("bf", 1, (("at", "tf", "x"), "p")), "le", 3.0),
                                 Con(E("ci", 1, ("x", "u", "p")), "le", 2.0, grid="integrator")], objective=obj)
    def user_quad(sp):
        if ok == "quad-state":
            st = sp.ocp
            q = st.state(quad=True)
            st.set_der(q, sp.sym["x"][0][0] ** 2)
            st.add_objective(st.at_tf(q))
    try:
        with contextlib.redirect_stdout(io.StringIO()):
            tm = spec(("fixed", 1.0), ("fixed", 0.0)); tm.build(template=True); user_quad(tm)
            A = Ocp()
            c1 = A.stage(tm.ocp, t0=0.0, T=2.0); c2 = A.stage(tm.ocp, t0=2.0, T=FreeTime(1.5))
            ptm = tm.sym[("p", "")][0]
            tval = float(tm.ocp._param_vals[ptm])
            c1.set_value(ptm, 0.25); c2.set_value(ptm, 0.75)      # per-clone values given after cloning
            A.solver("ipopt"); A._transcribed
            B = Ocp()
            s1 = spec(("fixed", 2.0), ("fixed", 0.0)); s1.build(parent=B); user_quad(s1); s1.ocp.set_value(s1.sym[("p", "")][0], 0.25)
            s2 = spec(("free", 1.5), ("fixed", 2.0)); s2.build(parent=B); user_quad(s2); s2.ocp.set_value(s2.sym[("p", "")][0], 0.75)
            B.solver("ipopt"); B._transcribed
            if float(tm.ocp._param_vals[ptm]) != tval:
                return dict(status="confirmed", failing_input=dict(p), observed="set_value on a clone changed the template's parameter value from %g to %g" % (tval, float(tm.ocp._param_vals[ptm])))
    except Exception as e:
        return dict(status="confirmed", failing_input=dict(p), observed="%s: %s" % (type(e).__name__, str(e)[:300]), expected="template and clones transcribe")
    oa, ob = A._augmented._method.opti, B._augmented._method.opti
    if oa.x.shape != ob.x.shape or oa.g.shape != ob.g.shape:
        return dict(status="confirmed", failing_input=dict(p), observed="sizes x %s g %s vs direct x %s g %s" % (oa.x.shape, oa.g.shape, ob.x.shape, ob.g.shape))
    rs = np.random.RandomState(0)
    Fa = ca.Function("Fa", [oa.x, oa.p], [oa.f, oa.g, oa.lbg, oa.ubg]); Fb = ca.Function("Fb", [ob.x, ob.p], [ob.f, ob.g, ob.lbg, ob.ubg])
    pb = np.array(ob.debug.value(ob.p, ob.value_parameters())).reshape(-1) if ob.p.numel() else np.zeros(0)
    pa = np.array(oa.debug.value(oa.p, oa.value_parameters())).reshape(-1) if oa.p.numel() else np.zeros(0)
    if not np.allclose(pa, pb, equal_nan=True):
        return dict(status="confirmed", failing_input=dict(p), observed="parameter values of the cloned OCP %s differ from the directly declared one %s" % (pa.tolist(), pb.tolist()))
    for _ in range(2):
        xv = rs.uniform(0.3, 1.4, size=oa.x.numel())
        ra = [np.array(v).reshape(-1) for v in Fa(xv, pb)]; rb = [np.array(v).reshape(-1) for v in Fb(xv, pb)]
        for nm, u, v in zip(("objective", "g", "lbg", "ubg"), ra, rb):
            if not np.allclose(u, v, rtol=1e-9, atol=1e-9, equal_nan=True):
                return dict(status="confirmed", failing_input=dict(p, x=xv.tolist()), observed="%s of the cloned OCP differs from the directly declared one" % nm)
    return dict(status="not-reproduced", detail="clones equal directly declared stages")


def signal_probe(p):
    """C17 / C01: a b-spline signal (variable or parameter) together with a plain variable inside the ODE: gap residuals
    of the real NLP against RK4 with every symbol at its own value"""
    import casadi as ca
    from rockit import Ocp, MultipleShooting, SingleShooting
    from contracts.backend import ufun
    kind, method = p["kind"], p["method"]
    ocp = Ocp(T=1.5, t0=0.25)
    x = ocp.state(2); u = ocp.control(); w = ocp.variable(); wc = ocp.variable(grid="control"); q = ocp.parameter(); ocp.set_value(q, 0.7)
    s = ocp.variable(grid="bspline", order=1) if kind == "variable" else ocp.parameter(grid="bspline", order=1)
    ocp.set_der(x, ufun("f", 2, [x, u, s, w, wc, q]))
    if p.get("with_der"):
        ocp.add_objective(ocp.at_tf(ocp.der(s)))
    N = 2
    if kind == "parameter":
        ocp.set_value(s, ca.DM([[0.3, -0.4, 0.9]]))
    ocp.solver("ipopt")
    ocp.method((MultipleShooting if method == "MS" else SingleShooting)(N=N, M=1, intg="rk"))
    with contextlib.redirect_stdout(io.StringIO()):
        ocp._transcribed
    opti = ocp._augmented._method.opti
    _, Xs = ocp.sample(x, grid="control"); _, Us = ocp.sample(u, grid="control"); _, Ss = ocp.sample(s, grid="control")
    ts, _ = ocp.sample(ocp.t, grid="control")
    _, Wcs = ocp.sample(wc, grid="control")
    Wv = ocp.value(w); Qv = ocp.value(q)
    gvec = opti.g if opti.g.numel() else ca.MX.zeros(0, 1)
    # Opti lists only the symbols that occur in constraints / objective (none under SingleShooting here): every symbol of
    # the sampled expressions is an input, parameters at their set values, decision variables at random values
    outs = [Xs, Us, Ss, ts, Wv, Qv, gvec, Wcs]
    syms = ca.symvar(ca.veccat(*[ca.vec(ca.MX(o)) for o in outs]))
    F = ca.Function("F", syms, outs)
    rs = np.random.RandomState(p.get("seed", 0))
    vals = []
    for s_ in syms:
        try:
            vals.append(np.array(opti.debug.value(s_, opti.value_parameters())))
        except Exception:
            vals.append(rs.uniform(0.3, 1.3, size=s_.shape))
    xv = np.concatenate([np.array(v).reshape(-1) for v in vals]) if vals else np.zeros(0)
    X, U, S, t, W, Q, g, WC = [np.array(v) for v in F(*vals)]
    xs = ca.MX.sym("x", 2); a = ca.MX.sym("a", 5)
    f = ca.Function("f", [xs, a], [ufun("f", 2, [xs, a[0], a[1], a[2], a[3], a[4]])])
    t = t.reshape(-1)
    worst = 0.0
    xk = X[:, 0]
    for k in range(N):
        h = t[k + 1] - t[k]
        arg = np.array([U.reshape(-1)[k], S.reshape(-1)[k], float(np.array(W).reshape(-1)[0]), WC.reshape(-1)[k], float(np.array(Q).reshape(-1)[0])])
        x0 = X[:, k] if method == "MS" else xk
        k1 = np.array(f(x0, arg)).reshape(-1); k2 = np.array(f(x0 + h / 2 * k1, arg)).reshape(-1)
        k3 = np.array(f(x0 + h / 2 * k2, arg)).reshape(-1); k4 = np.array(f(x0 + h * k3, arg)).reshape(-1)
        xn = x0 + h / 6 * (k1 + 2 * k2 + 2 * k3 + k4)
        worst = max(worst, float(np.max(np.abs(X[:, k + 1] - xn - (g.reshape(-1)[2 * k:2 * k + 2] if method == "MS" else 0)))))
        xk = xn
    if worst > 1e-8:
        return dict(status="confirmed", failing_input=dict(kind=kind, method=method, x=xv.tolist()),
                    observed="dynamics of the NLP deviate by %.3g from RK4 evaluated with the signal, the plain variable and the parameter at their own values" % worst)
    return dict(status="not-reproduced", detail="dynamics agree (max deviation %.2e)" % worst)


def spline_probe(p):
    """C15: one operation of the real BSpline algebra on Bernstein-form operands, evaluated with real CasADi at random
    coefficients and compared with the same operation on the operands' polynomials"""
    import casadi as ca
    from math import comb
    from rockit.splines.spline import BSpline, BSplineBasis
    op, P, Q = p["op"], p["p"], p.get("q")
    rs = np.random.RandomState(p.get("seed", 0))
    def mk(name, d):
        c = ca.MX.sym(name, d + 1)
        return BSpline(BSplineBasis([0] * (d + 1) + [1] * (d + 1), d), c), c
    def bern(c, d, s):
        return sum(c[i] * comb(d, i) * s ** i * (1 - s) ** (d - i) for i in range(d + 1))
    a, ca_ = mk("a", P)
    syms, vals = [ca_], [rs.uniform(-2, 2, size=P + 1)]
    w = ca.MX.sym("w")
    syms.append(w); vals.append(rs.uniform(-2, 2, size=1))
    b = cb = None
    if isinstance(Q, int):
        b, cb = mk("b", Q)
        syms.append(cb); vals.append(rs.uniform(-2, 2, size=Q + 1))
    S = np.linspace(0, 1, 9)
    pa = lambda s: bern(vals[0], P, s)
    pb = (lambda s: bern(vals[2], Q, s)) if isinstance(Q, int) else None
    wv = float(vals[1][0])
    table = {
        "__add__": (lambda: a + b, lambda s: pa(s) + pb(s)), "__sub__": (lambda: a - b, lambda s: pa(s) - pb(s)),
        "__mul__": (lambda: a * b, lambda s: pa(s) * pb(s)), "__pow__2": (lambda: a ** 2, lambda s: pa(s) ** 2),
        "__pow__3": (lambda: a ** 3, lambda s: pa(s) ** 3), "__neg__": (lambda: -a, lambda s: -pa(s)),
        "__mul__number": (lambda: a * 2.5, lambda s: 2.5 * pa(s)), "__rmul__DM": (lambda: ca.DM(0.5) * a, lambda s: 0.5 * pa(s)),
        "__rmul__symbol": (lambda: w * a, lambda s: wv * pa(s)), "__add__number": (lambda: a + 1.5, lambda s: pa(s) + 1.5),
        "__radd__symbol": (lambda: w + a, lambda s: wv + pa(s)), "__rsub__number": (lambda: 2.0 - a, lambda s: 2.0 - pa(s)),
    }
    cmp_ops = {"__le__": lambda o: a <= o, "__ge__": lambda o: a >= o, "__lt__": lambda o: a < o, "__gt__": lambda o: a > o, "reflected-le": lambda o: o <= a}
    try:
        if op in table:
            r = table[op][0]()
            d = r.basis.degree
            k = [float(x) for x in r.basis.knots]
            if k != [0.0] * (d + 1) + [1.0] * (d + 1):
                return dict(status="confirmed", failing_input=dict(op=op, p=P, q=Q), observed="result knots %s degree %d" % (k, d), expected="Bernstein form")
            cv = np.array(ca.Function("F", syms, [r.coeffs])(*vals)).reshape(-1)
            got = np.array([bern(cv, d, s) for s in S]); want = np.array([table[op][1](s) for s in S])
        elif op == "derivative":
            r = a.derivative()
            d = r.basis.degree
            cv = np.array(ca.Function("F", syms, [r.coeffs])(*vals)).reshape(-1)
            got = np.array([bern(cv, d, s) for s in S])
            h = 1e-6
            want = np.array([(pa(s + h) - pa(s - h)) / (2 * h) for s in S])
        else:
            other = b if isinstance(Q, int) else (w if Q is None else 2.0)
            po = pb if isinstance(Q, int) else ((lambda s: wv) if Q is None else (lambda s: 2.0))
            r = cmp_ops[op](other)
            # rows lo <= hi ; evaluate hi - lo through the canonical form of the comparison
            lo, hi = r.dep(0), r.dep(1)
            dv = np.array(ca.Function("F", syms, [hi - lo])(*vals)).reshape(-1)
            d = dv.shape[0] - 1
            got = np.array([bern(dv, d, s) for s in S])
            sign = 1 if op in ("__le__", "__lt__") else -1
            want = np.array([sign * (po(s) - pa(s)) for s in S])
    except Exception as e:
        return dict(status="confirmed", failing_input=dict(op=op, p=P, q=Q), observed="%s: %s" % (type(e).__name__, str(e)[:300]), expected="the operation is defined for these operands")
    tol = 1e-5 if op == "derivative" else 1e-7
    if got.shape != want.shape or np.max(np.abs(got - want)) > tol * (1 + np.max(np.abs(want))):
        return dict(status="confirmed", failing_input=dict(op=op, p=P, q=Q, coefficients=[v.tolist() for v in vals]),
                    observed=dict(s=S.tolist(), result_spline=got.tolist()), expected=dict(exact_polynomial=want.tolist()))
    return dict(status="not-reproduced", detail="result spline equals the exact polynomial at %d points" % len(S))


def reinterpret_probe(p):
    """C15: real reinterpret_expr + real BSpline algebra with real CasADi: the rows returned for a constraint shape,
    evaluated at random Bernstein coefficients, against the constraint evaluated on the operand polynomials"""
    import casadi as ca
    from math import comb
    from rockit.casadi_helpers import reinterpret_expr
    from rockit.splines.spline import BSpline, BSplineBasis
    from contracts.shapes import REINTERPRET_SHAPES
    shape = p["shape"]
    rs = np.random.RandomState(p.get("seed", 0))
    def mk(name, d):
        c = ca.MX.sym(name, d + 1)
        return BSpline(BSplineBasis([0] * (d + 1) + [1] * (d + 1), d), c), c
    def bern(c, d, s):
        return sum(c[i] * comb(d, i) * s ** i * (1 - s) ** (d - i) for i in range(d + 1))
    X0, X1, D0, W = ca.MX.sym("X0"), ca.MX.sym("X1"), ca.MX.sym("D0"), ca.MX.sym("W")
    a, ca_ = mk("a", 4); b, cb = mk("b", 4); da, cd = mk("d", 3); w = ca.MX.sym("w")
    expr = REINTERPRET_SHAPES[shape](X0, X1, D0, W)
    try:
        with contextlib.redirect_stdout(io.StringIO()) as buf:
            r = reinterpret_expr(expr, [X0, X1, D0, W], [a, b, da, w])
        if r is None or "Unknown operation" in buf.getvalue():
            return dict(status="confirmed", failing_input=dict(shape=shape), observed="reinterpret_expr could not translate the constraint (%s)" % buf.getvalue()[:120].strip(), expected="coefficient-wise comparison")
        vals = [rs.uniform(-2, 2, size=5), rs.uniform(-2, 2, size=5), rs.uniform(-2, 2, size=4), rs.uniform(-2, 2, size=1)]
        lo, hi = r.dep(0), r.dep(1)
        n = max(lo.numel(), hi.numel())
        dv = np.array(ca.Function("F", [ca_, cb, cd, w], [ca.repmat(hi, n // hi.numel(), 1) - ca.repmat(lo, n // lo.numel(), 1)])(*vals)).reshape(-1)
        U = ca.Function("U", [X0, X1, D0, W], [expr.dep(1) - expr.dep(0)])
    except Exception as e:
        return dict(status="confirmed", failing_input=dict(shape=shape), observed="%s: %s" % (type(e).__name__, str(e)[:300]), expected="the constraint is translated to coefficient rows")
    d = n - 1
    S = np.linspace(0, 1, 11)
    got = np.array([bern(dv, d, s) for s in S])
    want = np.array([float(U(bern(vals[0], 4, s), bern(vals[1], 4, s), bern(vals[2], 3, s), vals[3][0])) for s in S])
    if np.max(np.abs(got - want)) > 1e-7 * (1 + np.max(np.abs(want))):
        return dict(status="confirmed", failing_input=dict(shape=shape, coefficients=[v.tolist() for v in vals]),
                    observed=dict(s=S.tolist(), bernstein_expansion_of_rows=got.tolist()), expected=dict(rhs_minus_lhs_on_the_step=want.tolist()))
    return dict(status="not-reproduced", detail="rows expand to rhs - lhs at %d points (%d rows)" % (len(S), n))


def task_probe(p):
    """re-execute a bounded task function natively (real CasADi, real rockit): see replay/native_shim.py"""
    import importlib
    from replay import native_shim
    native_shim.install()
    try:
        mod = importlib.import_module(p["module"])
        tasks = mod.tasks(p.get("tier", "quick"), **p.get("tasks_kw", {}))
        t = next((t for t in tasks if t.name == p["task"]), None)
        if t is None and p.get("tier", "quick") == "quick":
            tasks = mod.tasks("thorough", **p.get("tasks_kw", {}))
            t = next((t for t in tasks if t.name == p["task"]), None)
        if t is None:
            return dict(status="error", detail="task %s not found in %s" % (p["task"], p["module"]))
        c = native_shim.reset()
        partial = None
        try:
            with contextlib.redirect_stdout(io.StringIO()):
                t.fn()
        except native_shim.NotReplayable as e:
            partial = "task stops being replayable at: %s" % e
        except (AttributeError, TypeError, NotImplementedError) as e:
            partial = "task uses an engine-only entry point natively: %s: %s" % (type(e).__name__, str(e)[:200])
    except Exception as e:
        return dict(status="error", detail="".join(traceback.format_exception(type(e), e, e.__traceback__))[-1200:])
    want = p.get("obligation")
    seen = [o for o in c.obligations if o.name == want]
    refuted = [o for o in c.obligations if o.status == "refuted"]
    same = [o for o in refuted if o.name == want]
    if same or (refuted and not seen):
        o = (same or refuted)[0]
        return dict(status="confirmed", failing_input=dict(task=p["task"], how="the task's specification built through rockit's public API with the fixed polynomial user functions of contracts/backend.py"),
                    natively_refuted_obligation=o.name, observed=o.detail, n_refuted_natively=len(refuted), n_evaluated_natively=len(c.obligations))
    if seen:
        return dict(status="not-reproduced", detail="obligation holds natively (%d obligations evaluated, %d refuted)" % (len(c.obligations), len(refuted)))
    return dict(status="error", detail="obligation not reached natively (%d evaluated); %s" % (len(c.obligations), partial))


def colloc_probe(p):
    """C02/C03/C05: the collocation data DirectCollocation.__init__ stores, recomputed on the real code"""
    from replay import colloc_tables
    want = p.get("obligation", "")
    for r in colloc_tables.main():
        name = "direct_collocation:DirectCollocation.__init__:ensures:%s[d=%d,%s]" % (r["what"], r["degree"], r["scheme"])
        if name == want:
            if r["ok"]:
                return dict(status="not-reproduced", detail=r.get("detail"))
            return dict(status="confirmed", failing_input=dict(call="DirectCollocation(degree=%d, scheme=%r) after building the methods of the other degrees and schemes in the same process" % (r["degree"], r["scheme"])),
                        observed=r.get("detail"), expected=r["what"])
    return dict(status="error", detail="no such table obligation: %s" % want)


def kernel_probe(p):
    """C17: rockit.splines.micro_spline.eval_on_knots / bspline_derivative on the real CasADi against the textbook
    Cox-de Boor recursion (contracts/c17.py, exact rationals), in the SAME call sequence as the engine task (results must
    not depend on earlier calls)"""
    import casadi as ca
    from replay import native_shim
    native_shim.install()
    from contracts import c17
    from rockit.splines.micro_spline import eval_on_knots, bspline_derivative
    want_name = p.get("obligation", "")
    subgrids = [[Fraction(1, 2)], [Fraction(1, 3)], [Fraction(1, 3), Fraction(2, 3)], [Fraction(1, 4), Fraction(3, 4)],
                [Fraction(1, 5), Fraction(1, 2), Fraction(9, 10)], [Fraction(1, 10), Fraction(1, 3), Fraction(2, 3)]]
    found = {}
    def cmp(name, B, K, d, pts, call):
        want = np.array([[float(v) for v in c17.cox_de_boor(K, d, x)] for x in pts]).T
        B = np.array(B)
        if d == 0 and want.shape[0] == B.shape[0] + 1:
            want = want[:-1, :]
        if B.shape != want.shape or np.max(np.abs(B - want)) > 1e-9:
            found[name] = dict(call=call, evaluated_at=[str(x) for x in pts], observed=B.tolist(), expected_cox_de_boor=want.tolist())
    for N in range(1, 6 if p.get("tier") == "thorough" else 5):
        for d in range(0, 5):
            for kname, xi in c17.knot_sets(N):
                if kname == "geometric" and N == 1:
                    continue
                K = c17.clamped(xi, d)
                X = ca.DM([[float(x) for x in xi]])
                tag = "[N=%d,d=%d,%s]" % (N, d, kname)
                k, B = eval_on_knots(X, d)
                cmp("micro_spline:eval_on_knots:ensures:cox-de-boor-on-knots" + tag, B, K, d, list(xi), "eval_on_knots(%s, %d)" % ([str(x) for x in xi], d))
                for sg in subgrids:
                    k2, B2 = eval_on_knots(X, d, subgrid=[float(s_) for s_ in sg], include_edges=False)
                    pts = [xi[i] * (1 - s_) + s_ * xi[i + 1] for i in range(N) for s_ in sg]
                    name = "micro_spline:eval_on_knots:ensures:cox-de-boor-on-subgrid%s[%s]" % (tag, ",".join(str(s_) for s_ in sg))
                    cmp(name, B2, K, d, pts, "eval_on_knots(%s, %d, subgrid=%s, include_edges=False) after the earlier calls of this sequence" % ([str(x) for x in xi], d, [str(s_) for s_ in sg]))
                    kk = np.array(k2).reshape(-1)
                    if kk.shape[0] != len(pts) or np.max(np.abs(kk - np.array([float(x) for x in pts]))) > 1e-12:
                        found[name + ":positions"] = dict(observed=kk.tolist(), expected=[float(x) for x in pts])
                if d >= 1:
                    C = ca.MX.sym("c", 2, N + d)
                    D = bspline_derivative(C, X, d)
                    want = ca.hcat([(C[:, i + 1] - C[:, i]) * (d / float(K[i + d + 1] - K[i + 1])) for i in range(N + d - 1)])
                    cv = np.random.RandomState(0).uniform(-1, 1, size=(2, N + d))
                    a_, b_ = ca.Function("F", [C], [D, want])(cv)
                    if a_.shape != b_.shape or np.max(np.abs(np.array(a_) - np.array(b_))) > 1e-9:
                        found["micro_spline:bspline_derivative:ensures:analytic-derivative-coefficients" + tag] = dict(coefficients=cv.tolist(), observed=np.array(a_).tolist(), expected=np.array(b_).tolist())
    if want_name in found:
        return dict(status="confirmed", failing_input=found[want_name].get("call", want_name), problem=found[want_name], n_mismatches_in_sequence=len(found))
    return dict(status="not-reproduced", detail="this kernel result agrees with Cox-de Boor natively (%d other mismatches in the sequence)" % len(found))


def generated_fault_probe(p):
    """C20: the generated specification with its injected fault on the real code: must raise before an NLP exists"""
    from contracts import randspec
    from contracts.spec import Spec
    i = p["index"]
    kw, fault = randspec.make_fault(i, randspec.make(i))
    try:
        with contextlib.redirect_stdout(io.StringIO()):
            spec = Spec(fault=fault, **kw)
            spec.build()
            spec.ocp._transcribed
    except Exception as e:
        return dict(status="not-reproduced", detail="rejected with %s: %s" % (type(e).__name__, str(e)[:150]))
    return dict(status="confirmed", failing_input=dict(generated_specification=i, fault=fault or "algebraic-with-explicit-scheme", spec={k: str(v)[:80] for k, v in kw.items()}),
                observed="declared and transcribed without any exception", expected="an exception at declaration or transcription")


def two_stage_probe(p):
    """C12 / C05: two generated specifications as the stages of one master OCP on the real code: objective = sum of the
    stages' oracle objectives, every oracle row of either stage is present in the NLP"""
    import casadi as ca
    from rockit import Ocp
    from contracts import randspec
    from contracts.spec import Spec
    from contracts.oracle import Oracle
    from replay.run import rows_of
    i = p.get("index", -1)
    try:
        with contextlib.redirect_stdout(io.StringIO()):
            master = Ocp()
            if p.get("same_shape"):
                from contracts.spec import E, Con
                mk = lambda meth, f, L, c_: Spec(method=meth, N=2, M=2, degree=2, T=("fixed", 1.0), t0=("fixed", 0.0), states=[2], controls=[1], params={"": [1]},
                                                 ode=E(f, None, ("x", "u", "p")), constraints=[Con(E(c_, 1, ("x", "u")), "le", 1.0)], objective=[("integral", E(L, 1, ("x", "u")))])
                s1, s2 = mk(p["same_shape"][0], "fA", "LA", "cA"), mk(p["same_shape"][1], "fB", "LB", "cB")
            else:
                s1, s2 = Spec(**randspec.make(2 * i)), Spec(**randspec.make(2 * i + 1))
            s1.build(parent=master); s2.build(parent=master)
            master.solver("ipopt")
            master._transcribed
            aug = master._augmented
            opti = aug._method.opti
            J, exp, tags = 0, [], []
            for sp, st in ((s1, aug._stages[0]), (s2, aug._stages[1])):
                b = sp.bound_to(st)
                orc = Oracle(b, st._method).expected()
                J = J + orc.J
                for r in [r_ for r_ in orc.rows if r_["kind"] != "free"]:
                    for q in range(ca.MX(r["r"]).numel()):
                        tags.append((r["kind"], "/".join(str(t) for t in r["tag"] + (q,))))
                    exp.append(ca.vec(ca.MX(r["r"])))
    except Exception as e:
        return dict(status="confirmed", failing_input=dict(generated=[2 * i, 2 * i + 1]), observed="%s: %s" % (type(e).__name__, str(e)[:300]), expected="the two-stage OCP transcribes")
    r = _union_native(opti, J, exp, tags, dict(generated=[2 * i, 2 * i + 1]), "two-stage OCP", methods=[aug._stages[0]._method, aug._stages[1]._method])
    return r or dict(status="not-reproduced", detail="objective and %d stage rows agree" % len(tags))


def clones_of_probe(p):
    """C04 / C09 / C12: a specification declared once as a template and instantiated twice on the real code (contracts/c12.py:
    clones_of): every clone owes the rows and objective of the specification's oracle and keeps its own parameter values"""
    import casadi as ca
    from rockit import Ocp
    from contracts import randspec
    from contracts.spec import Spec
    from contracts.oracle import Oracle
    from contracts.backend import unknown
    if "generated" in p:
        kw = randspec.make(p["generated"])
        if p.get("prop") in ("C10", "C12"):
            ini, _ = randspec.make_initial(p["generated"], kw)
            kw = dict(kw, initial=ini, initial_after=0)
        fi = dict(generated=p["generated"], clones=2)
    else:
        from contracts.spec import own_horizon_kw
        kw = own_horizon_kw(p["method"], tuple(p["T"]), tuple(p["t0"]))
        fi = dict(template=dict(method=p["method"], T=p["T"], t0=p["t0"], horizon="the template's own parameter symbols"), clones=2)
    try:
        with contextlib.redirect_stdout(io.StringIO()):
            from contracts.spec import build_clones
            master, tmpl, bs = build_clones(kw, divergent=bool(p.get("divergent")))
            if p.get("divergent"):
                fi = dict(fi, second_clone="after cloning: own dynamics and derivative scales, one more constraint, objective term and guess")
            master.solver("ipopt")
            master._transcribed
            aug = master._augmented
            opti = aug._method.opti
            J, exp, tags, parts = 0, [], [], []
            for j, b_ in enumerate(bs):
                b_.ocp = aug._stages[j]
                b_.opti = opti
                parts.append((b_, aug._stages[j]._method))
                orc = Oracle(b_, aug._stages[j]._method).expected()
                J = J + orc.J
                for r in [r_ for r_ in orc.rows if r_["kind"] != "free"]:
                    for q in range(ca.MX(r["r"]).numel()):
                        tags.append((r["kind"], "/".join(str(t) for t in ("clone%d" % j,) + r["tag"] + (q,))))
                    exp.append(ca.vec(ca.MX(r["r"])))
    except Exception as e:
        return dict(status="confirmed", failing_input=fi, observed="%s: %s" % (type(e).__name__, str(e)[:300]), expected="the template and its two clones transcribe")
    vals = opti.value_parameters()
    bad, n = [], 0
    for j, (sp, meth) in enumerate(parts):
        for kind, lst in (("", meth.P), ("control", meth.P_control), ("control+", meth.P_control_plus)):
            for q, P in enumerate(lst):
                if (kind, q) not in sp.pvals:
                    continue
                members = [P] if kind == "" else list(P)
                want = np.array(ca.DM(sp.pvals[(kind, q)]))
                ncol = ca.MX(members[0]).shape[1]
                for k_, sym in enumerate(members):
                    n += 1
                    got = np.array(opti.debug.value(ca.MX(sym), vals)).reshape(ca.MX(sym).shape)
                    w = want if kind == "" else want[:, k_ * ncol:(k_ + 1) * ncol]
                    if got.shape != w.shape or not np.allclose(got, w, rtol=1e-12, atol=1e-12):
                        bad.append(dict(clone=j, parameter="%s #%d" % (kind or "global", q), member=k_, observed=got.tolist(), value_given_to_this_clone=w.tolist()))
    if bad:
        return dict(status="confirmed", failing_input=fi, problems=[dict(what="a clone's solver parameter does not carry the value given to that clone", entries=bad[:6], count=len(bad), checked=n)])
    from contracts.oracle import expected_initial
    start = opti.initial()
    badi, ni = [], 0
    for j, (sp, meth) in enumerate(parts):
        for tag, handle, ex in expected_initial(sp, meth, sp.initial_realised):
            ni += 1
            try:
                got = np.array(opti.debug.value(ca.MX(handle), start)).reshape(-1)
            except Exception as e:
                badi.append(dict(clone=j, variable="/".join(str(t) for t in tag), observed="cannot be read back: %s" % str(e)[:100]))
                continue
            want = np.array(opti.debug.value(ca.MX(ex), start)).reshape(-1)
            if got.shape != want.shape or np.max(np.abs(got - want)) > 1e-9 * (1 + np.max(np.abs(want))):
                badi.append(dict(clone=j, variable="/".join(str(t) for t in tag), observed=got.tolist(), expected=want.tolist()))
    if badi:
        return dict(status="confirmed", failing_input=dict(fi, guesses=[(str(t), str(v)[:80]) for t, v in bs[-1].initial_realised]),
                    problems=[dict(what="a clone does not start from the guesses that apply to it", variables=badi[:8], count=len(badi), checked=ni)])
    r = _union_native(opti, J, exp, tags, fi, "two clones", methods=[m_ for _, m_ in parts])
    return r or dict(status="not-reproduced", detail="objective, %d clone rows and %d parameter members agree" % (len(tags), n))


def _union_native(opti, J, exp, tags, failing_input, what, methods=None):
    """numeric comparison (two random points) of a multi-stage NLP with the union of the stages' oracles"""
    import casadi as ca
    from replay.run import rows_of
    outs = [opti.f, ca.MX(J), opti.g, opti.lbg, opti.ubg, ca.vcat(exp) if exp else ca.MX(0, 1)]
    known = ca.vertcat(opti.x, opti.p)
    inactive = [s_ for s_ in ca.symvar(ca.veccat(*[ca.vec(o) for o in outs])) if not ca.depends_on(known, s_)]
    F = ca.Function("F", [opti.x, opti.p] + inactive, outs)
    rs = np.random.RandomState(0)
    pv = np.array(opti.debug.value(opti.p, opti.value_parameters())).reshape(-1) if opti.p.numel() else np.zeros(0)
    iv = []
    for s_ in inactive:
        try:
            iv.append(np.array(opti.debug.value(s_, opti.value_parameters())))
        except Exception:
            iv.append(rs.uniform(0.3, 1.4, size=s_.shape))
    pts = []
    for _ in range(2):
        xv = rs.uniform(0.3, 1.4, size=opti.x.numel())
        pts.append([np.array(v).reshape(-1) for v in F(xv, pv, *iv)])
    problems = []
    for o in pts:
        if abs(o[0][0] - o[1][0]) > 1e-7 * (1 + abs(o[1][0])):
            problems.append(dict(what="objective of the %s" % what + " is not the sum of the stages' declared terms", observed=float(o[0][0]), expected=float(o[1][0])))
            break
    em = [rows_of(o[2], o[3], o[4]) for o in pts]
    em_rows = [(em[0][j][0], np.array([em[q][j][2] for q in range(2)])) for j in range(len(em[0]))]
    used = [False] * len(em_rows)
    missing = []
    for j, (kind, tag) in enumerate(tags):
        v = np.array([pts[q][5][j] for q in range(2)])
        hit = next((m for m, (k2, w) in enumerate(em_rows) if not used[m] and k2 == kind and np.all(np.abs(v - w) <= 1e-7 * (1 + np.abs(v)))), None)
        if hit is None:
            missing.append(tag)
        else:
            used[hit] = True
    if missing:
        problems.append(dict(what="rows demanded by a stage's declaration are absent from the NLP", rows=missing[:8], count=len(missing)))
    if methods is not None and not missing:
        # frame: an emitted row no declaration accounts for may only be a grid-coupling row of ONE stage (a row over that
        # stage's own time symbols; its content is judged by the engine's grid formulas)
        Jg = np.array(ca.DM(ca.jacobian(opti.g, ca.vertcat(opti.x, opti.p)).sparsity(), 1))
        tcols = []
        for meth in methods:
            tv = [ca.vec(ca.MX(e)) for lst in (getattr(meth, "T_local", []), getattr(meth, "t0_local", [])) for e in lst if e is not None] + [ca.vec(ca.MX(meth.T)), ca.vec(ca.MX(meth.t0))]
            Jt = np.array(ca.DM(ca.jacobian(ca.vcat(tv), ca.vertcat(opti.x, opti.p)).sparsity(), 1))
            tcols.append(set(np.nonzero(Jt.sum(axis=0))[0]))
        foreign = []
        for m, (k2, w) in enumerate(em_rows):
            if used[m]:
                continue
            gi = em[0][m][1]
            cols = set(np.nonzero(Jg[gi])[0])
            if not cols or not any(cols <= tc for tc in tcols):
                foreign.append(dict(kind=k2, g_index=int(gi), residuals=w.tolist()))
        if foreign:
            problems.append(dict(what="NLP rows that no declaration of any stage accounts for", rows=foreign[:8], count=len(foreign)))
    if problems:
        return dict(status="confirmed", failing_input=failing_input, problems=problems)
    return None


def density_probe(p):
    """C06: DensityGrid / DenseEdgesGrid / FunctionGrid node locations recomputed on the real code"""
    from replay import density_grid
    want = p.get("obligation", "")
    for r in density_grid.main():
        name = "sampling_method:%s.normalized:ensures:%s[%s,N=%d]" % (r["grid"].split("(")[0], r["what"], r["grid"], r["N"])
        if name == want:
            if r["ok"]:
                return dict(status="not-reproduced", detail=r["detail"])
            return dict(status="confirmed", failing_input=dict(grid=r["grid"], N=r["N"], note="after the other grid objects of this sequence were built in the same process"), observed=r["detail"], expected=r["what"])
    return dict(status="error", detail="no such obligation: %s" % want)


def spline_method_probe(p):
    """C17: the native SplineMethod stand-in re-run; reports the named configuration"""
    from replay import spline_method_native
    want = p.get("obligation", "")
    for r in spline_method_native.main():
        if "spline_method:SplineMethod:ensures:%s[%s]" % (r["what"], r["config"]) == want:
            if r["ok"]:
                return dict(status="not-reproduced", detail="holds natively")
            return dict(status="confirmed", failing_input=dict(configuration=r["config"], decision_vector="numpy RandomState(0) sequence of the harness"), observed=r["detail"], expected=r["what"])
    return dict(status="error", detail="no such obligation")


def clone_signal_probe(p):
    """C12: two stages created from a template that declares a grid='bspline' variable against two stages declared
    directly with the same content (real code): identical objective, constraints and bounds at a random point"""
    import casadi as ca
    from rockit import Ocp, MultipleShooting, DirectCollocation, Stage
    Meth = dict(MS=lambda: MultipleShooting(N=3, M=2), DC=lambda: DirectCollocation(N=3, M=2, degree=2))[p.get("method", "MS")]
    order = p.get("order", 2)
    def build(direct):
        ocp = Ocp()
        def declare(st):
            x = st.state(); u = st.control(); s = st.variable(grid="bspline", order=order)
            st.set_der(x, u + 0.3 * s)
            st.subject_to(st.at_t0(x) == 0); st.subject_to(s <= 1); st.subject_to(-2 <= (u <= 2))
            st.add_objective(st.at_tf(x)); st.add_objective(st.integral(u ** 2))
            st.method(Meth())
            return st
        if direct:
            for t0 in (0.0, 1.0):
                declare(ocp.stage(t0=t0, T=1.0))
        else:
            tm = declare(Stage(t0=0.0, T=1.0))
            ocp.stage(tm, t0=0.0); ocp.stage(tm, t0=1.0)
        ocp.solver("ipopt")
        with contextlib.redirect_stdout(io.StringIO()):
            ocp._transcribed
        o = ocp._augmented._method.opti
        F = ca.Function("F", [o.x, o.p], [o.f, o.g, o.lbg, o.ubg])
        xv = np.random.RandomState(0).uniform(-1, 1, o.x.numel())
        return [np.array(v).reshape(-1) for v in F(xv, np.zeros(o.p.numel()))], xv
    try:
        a, xv = build(True)
        b, _ = build(False)
    except Exception as e:
        return dict(status="confirmed", failing_input=dict(p), observed="%s: %s" % (type(e).__name__, str(e)[:300]), expected="template with a b-spline signal can be instantiated")
    for nm, u, v in zip(("objective", "g", "lbg", "ubg"), a, b):
        if u.shape != v.shape or not np.allclose(u, v, rtol=1e-9, atol=1e-9, equal_nan=True):
            return dict(status="confirmed", failing_input=dict(p, x=xv.tolist()), observed="%s of the cloned OCP differs from the directly declared one" % nm)
    return dict(status="not-reproduced", detail="clones with a b-spline signal equal directly declared stages (%d rows)" % len(a[1]))
