"""Further native harnesses (real CasADi, real rockit)."""
import contextlib
import io
import re
from fractions import Fraction

import numpy as np


def _val(s):
    s = str(s).replace("?", "")
    try:
        return float(Fraction(s))
    except Exception:
        return float(s)


def _apply_model_to_unknowns(model):
    """numeric unknowns of the engine (scale_*, pval_*, horizon_*) take the solver's values"""
    from contracts import backend
    table = {}
    for k, v in (model or {}).items():
        m = re.match(r"^(.*)_(\d+)$", k)
        if m and not k.startswith("opti"):
            table.setdefault(m.group(1), {})[int(m.group(2))] = _val(v)
    orig = backend.unknown

    def unknown(name, n=1, m=1, positive=False):
        d = orig(name, n, m, positive)
        if name in table:
            import casadi as ca
            a = np.array(d).reshape(-1, order="F")
            for i, v in table[name].items():
                if i < len(a):
                    a[i] = v
            return ca.DM(a.reshape((n, m), order="F"))
        return d
    backend.unknown = unknown
    import contracts.spec as sp
    sp.unknown = unknown


def _x_from_model(opti, model, rs):
    import casadi as ca
    x = rs.uniform(0.3, 1.4, size=opti.x.numel())
    offs, off = {}, 0
    for s in opti.advanced.symvar():
        nm = s.name()
        m = re.match(r"opti\d+_x_(\d+)$", nm)
        if m:
            offs[int(m.group(1))] = off
            off += s.numel()
    for k, v in (model or {}).items():
        m = re.match(r"opti\d+_x_(\d+)#\d+_(\d+)$", k)
        if m and int(m.group(1)) in offs:
            x[offs[int(m.group(1))] + int(m.group(2))] = _val(v)
    return x


def grid_diff(p):
    """C06: a point that satisfies every time-grid row of the real NLP but whose control grid is
    not the declared partition (or violates min/max)."""
    import casadi as ca
    from contracts import catalog
    _apply_model_to_unknowns(p.get("model"))
    spec = catalog.find(p["prop"], p["label"])()
    with contextlib.redirect_stdout(io.StringIO()):
        spec.build()
        meth = spec.transcribe()
    opti = spec.opti
    rs = np.random.RandomState(p.get("seed", 0))
    x = _x_from_model(opti, p.get("model"), rs)
    par = opti.p
    pv = np.array(opti.debug.value(par, opti.value_parameters())).reshape(-1) if par.numel() else np.zeros(0)
    tv = [ca.MX(e) for e in list(getattr(meth, "T_local", [])) + list(getattr(meth, "t0_local", [])) + [meth.T, meth.t0] if e is not None]
    tsyms = [s for e in tv for s in ca.symvar(e)]
    cg = ca.vec(ca.MX(meth.control_grid))
    F = ca.Function("F", [opti.x, par], [opti.g, opti.lbg, opti.ubg, cg, ca.MX(meth.T), ca.MX(meth.t0)])
    J = ca.Function("J", [opti.x, par], [ca.jacobian(opti.g, opti.x)])
    g, lb, ub, ts, T, t0 = [np.array(v).reshape(-1) for v in F(x, pv)]
    Jsp = np.array(J(x, pv).sparsity()) if False else np.array(ca.DM(J.sparsity_out(0), 1))
    xs = opti.x
    tmask = np.zeros(xs.numel(), bool)
    dep = ca.Function("d", [opti.x], [ca.vcat(tsyms) if tsyms else ca.MX(0, 1)])
    if tsyms:
        dsp = np.array(ca.DM(ca.jacobian(ca.vcat([ca.vec(s) for s in tsyms]), opti.x).sparsity(), 1))
        tmask = dsp.sum(axis=0) > 0
    time_rows = [i for i in range(len(g)) if Jsp[i].sum() > 0 and not np.any(Jsp[i][~tmask])]
    tol = 1e-8
    infeasible = [i for i in time_rows if g[i] < lb[i] - tol or g[i] > ub[i] + tol]
    grid = spec.grid
    N = spec.N
    h = np.diff(ts)
    viol = []
    if abs(ts[0] - t0[0]) > tol:
        viol.append("grid does not start at t0")
    if abs(ts[-1] - (t0[0] + T[0])) > 1e-7 * (1 + abs(T[0])):
        viol.append("grid does not end at t0+T (%g vs %g)" % (ts[-1], t0[0] + T[0]))
    kind = grid.get("kind", "uniform")
    if kind == "uniform" and np.max(np.abs(h - h[0])) > 1e-7:
        viol.append("intervals not equal: %s" % h.tolist())
    if kind == "geometric":
        gr = meth.time_grid.growth_factor(N)
        for k in range(N - 1):
            if abs(h[k + 1] - gr * h[k]) > 1e-7 * (1 + abs(h[k])):
                viol.append("interval ratio %d: %g != %g*%g" % (k, h[k + 1], gr, h[k]))
    lo, hi = grid.get("min", 0), grid.get("max", float("inf"))
    for k in range(N):
        if h[k] < lo - 1e-9 or h[k] > hi + 1e-9:
            viol.append("interval %d has length %g outside [%g, %g]" % (k, h[k], lo, hi))
    inst = spec.describe()
    if not infeasible and viol:
        return dict(status="confirmed", failing_input=dict(instance=inst, x=x.tolist(), p=pv.tolist()),
                    observed=dict(control_grid=ts.tolist(), time_rows=len(time_rows), all_time_rows_satisfied=True, violations=viol),
                    expected="every point satisfying the grid's own constraints has the declared partition and respects min/max")
    if infeasible and not viol:
        return dict(status="confirmed", failing_input=dict(instance=inst, x=x.tolist(), p=pv.tolist()),
                    observed=dict(control_grid=ts.tolist(), violated_time_rows=infeasible),
                    expected="a grid that is the declared partition satisfies every grid row of the NLP")
    return dict(status="not-reproduced", detail="time rows violated: %s; spec violations: %s" % (infeasible, viol), instance=inst)


def history_diff(p):
    """C13: the OCP reached through a history against the freshly written OCP with the final specification,
    on the real code: NLP functions at random points, starting point, parameter values, solver."""
    import casadi as ca
    from contracts.histories import histories
    with contextlib.redirect_stdout(io.StringIO()):
        a, b = histories()[p["history"]](p["method"])
        a._transcribed
        b._transcribed
    oa, ob = a._augmented._method.opti, b._augmented._method.opti
    probs = []
    if oa.x.shape != ob.x.shape or oa.p.shape != ob.p.shape or oa.g.shape != ob.g.shape:
        probs.append("problem sizes differ: x %s/%s p %s/%s g %s/%s" % (oa.x.shape, ob.x.shape, oa.p.shape, ob.p.shape, oa.g.shape, ob.g.shape))
    else:
        rs = np.random.RandomState(p.get("seed", 0))
        Fa = ca.Function("Fa", [oa.x, oa.p], [oa.f, oa.g, oa.lbg, oa.ubg])
        Fb = ca.Function("Fb", [ob.x, ob.p], [ob.f, ob.g, ob.lbg, ob.ubg])
        pa = np.array(oa.debug.value(oa.p, oa.value_parameters())).reshape(-1) if oa.p.numel() else np.zeros(0)
        pb = np.array(ob.debug.value(ob.p, ob.value_parameters())).reshape(-1) if ob.p.numel() else np.zeros(0)
        if not np.allclose(pa, pb, equal_nan=True):
            probs.append("parameter values differ: %s vs fresh %s" % (pa.tolist(), pb.tolist()))
        for _ in range(2):
            xv = rs.uniform(0.3, 1.4, size=oa.x.numel())
            ra = [np.array(v).reshape(-1) for v in Fa(xv, pb)]
            rb = [np.array(v).reshape(-1) for v in Fb(xv, pb)]
            for nm, u, v in zip(("objective", "g", "lbg", "ubg"), ra, rb):
                if not np.allclose(u, v, rtol=1e-9, atol=1e-9, equal_nan=True):
                    probs.append("%s differs from the fresh OCP's at x=%s" % (nm, np.round(xv, 3).tolist()))
                    break
        ia = np.array(oa.debug.value(oa.x, oa.initial())).reshape(-1)
        ib = np.array(ob.debug.value(ob.x, ob.initial())).reshape(-1)
        if not np.allclose(ia, ib):
            probs.append("starting point differs: %s vs fresh %s" % (np.round(ia, 4).tolist(), np.round(ib, 4).tolist()))
    sa = (a._augmented._method._solver, a._augmented._method._solver_options)
    sb = (b._augmented._method._solver, b._augmented._method._solver_options)
    if sa != sb:
        probs.append("solver settings differ: %r vs fresh %r" % (sa, sb))
    if probs:
        return dict(status="confirmed", failing_input=dict(history=p["history"], method=p["method"]), problems=probs)
    return dict(status="not-reproduced", detail="history and fresh OCP agree on the real code")


def fault_probe(p):
    """C20: does the real code reject the ill-posed specification (at the latest in solve)?"""
    from contracts.faults import faults
    try:
        with contextlib.redirect_stdout(io.StringIO()):
            ocp = faults()[p["fault"]](p["method"])
            if ocp is None:
                return dict(status="not-reproduced", detail="fault not applicable for this method")
            ocp.solve()
    except Exception as e:
        return dict(status="not-reproduced", detail="rejected with %s: %s" % (type(e).__name__, str(e)[:150]))
    return dict(status="confirmed", failing_input=dict(fault=p["fault"], method=p["method"]),
                observed="declared, transcribed and solved without any exception", expected="an exception at declaration or at the latest in solve()")
