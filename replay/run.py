"""
Native replay harnesses: run under /venv/bin/python with the REAL CasADi and the rockit tree
under test (PYTHONPATH = <repo>:/verif).  Input: JSON on stdin.  Output: last stdout line is a
JSON verdict  {"status": "confirmed" | "not-reproduced" | "error", ...}.

  nlp_diff  : build the instance, transcribe with the real rockit, evaluate rockit's NLP rows
              and the oracle's rows (contracts/oracle.py on real CasADi, user functions =
              fixed polynomials) at random decision vectors, compare as multisets.
"""
import io
import json
import sys
import contextlib
import traceback

import numpy as np


def rows_of(g, lbg, ubg):
    rows = []
    for i in range(len(g)):
        if lbg[i] == ubg[i]:
            rows.append(("eq", i, g[i] - lbg[i]))
        else:
            if np.isfinite(ubg[i]):
                rows.append(("le", i, g[i] - ubg[i]))
            if np.isfinite(lbg[i]):
                rows.append(("le", i, lbg[i] - g[i]))
    return rows


def nlp_diff(p):
    import casadi as ca
    from contracts import catalog
    from contracts.oracle import Oracle
    spec = catalog.find(p["prop"], p["label"])()
    spec.label = p["label"]
    out = dict(instance=spec.describe())
    reject = getattr(spec, "expect_reject", None)
    try:
        with contextlib.redirect_stdout(io.StringIO()):
            spec.build()
            meth = spec.transcribe()
    except Exception as e:
        if reject:
            return dict(status="not-reproduced", detail="real code rejects the specification: %s" % str(e)[:200], **out)
        return dict(status="confirmed", failing_input=out["instance"], observed="%s: %s" % (type(e).__name__, str(e)[:400]),
                    expected="the valid specification transcribes", **out)
    if reject:
        return dict(status="confirmed", failing_input=out["instance"], observed="specification transcribed silently (no exception)",
                    expected="rejected: " + reject, **out)
    opti = spec.opti
    if "handles-are-distinct" in p.get("obligation", "") or p.get("force") == "handles":
        # every handle entry depends on exactly one solver variable, and no two handles share one
        N, M = spec.N, spec.M
        groups = []
        if spec.method in ("MS", "DC"):
            groups += [("X[%d]" % k, ca.MX(meth.X[k])) for k in range(N + 1)]
        else:
            groups.append(("X[0]", ca.MX(meth.X[0])))
        groups += [("U[%d]" % k, ca.MX(meth.U[k])) for k in range(N) if ca.MX(meth.U[k]).numel()]
        if spec.method == "DC":
            for k in range(N):
                for i in range(M):
                    Xc, Zc = ca.MX(meth.Xc[k][i]), ca.MX(meth.Zc[k][i])
                    groups.append(("Xc[%d][%d] helper states" % (k, i), Xc[:, 1:]))
                    if i > 0:
                        groups.append(("Xc[%d][%d] start state" % (k, i), Xc[:, 0]))
                    if Zc.numel():
                        groups.append(("Zc[%d][%d]" % (k, i), Zc))
        owner = {}
        for label, m in groups:
            J = np.array(ca.DM(ca.jacobian(ca.vec(m), opti.x).sparsity(), 1))
            for r in range(J.shape[0]):
                cols = np.nonzero(J[r])[0]
                if len(cols) != 1:
                    return dict(status="confirmed", failing_input=out["instance"], observed="%s entry %d depends on %d solver variables" % (label, r, len(cols)), **out)
                if cols[0] in owner:
                    return dict(status="confirmed", failing_input=out["instance"], observed="%s and %s are the same solver variable (column %d of opti.x)" % (owner[cols[0]], label, cols[0]),
                                expected="every collocation / node quantity has its own decision variable", **out)
                owner[cols[0]] = label
        return dict(status="not-reproduced", detail="all %d handle entries are distinct solver variables" % len(owner), **out)
    if "physical-is-declared-scale" in p.get("obligation", "") or p.get("force") == "scaling":
        from contracts.oracle import scaled_handles
        bad = []
        n = 0
        for label, h, sc in scaled_handles(spec, meth):
            h = ca.vec(ca.MX(h))
            F = ca.Function("S", [opti.x, opti.p], [ca.jacobian(h, opti.x), h])
            pv = np.array(opti.debug.value(opti.p, opti.value_parameters())).reshape(-1) if opti.p.numel() else np.zeros(0)
            J, h0 = F(np.zeros(opti.x.numel()), pv)
            J, h0, scv = np.array(J), np.array(h0).reshape(-1), np.array(ca.DM(sc)).reshape(-1)
            for r in range(J.shape[0]):
                n += 1
                nz = np.nonzero(J[r])[0]
                if len(nz) != 1 or abs(J[r, nz[0]] - scv[r]) > 1e-9 * (1 + abs(scv[r])) or abs(h0[r]) > 1e-12:
                    bad.append(dict(quantity="%s entry %d" % (label, r), declared_scale=float(scv[r]),
                                    observed="d(physical)/d(solver variables) has nonzeros %s, offset %g" % ([float(J[r, j]) for j in nz], h0[r])))
        if bad:
            return dict(status="confirmed", failing_input=out["instance"], problems=[dict(what="physical quantity is not declared scale * own solver variable", entries=bad[:8], count=len(bad), checked=n)], **out)
        return dict(status="not-reproduced", detail="all %d scaled entries are declared scale * one solver variable" % n, **out)
    if ":ensures:value[" in p.get("obligation", "") or p.get("force") == "pvals":
        # C09: the value table of the solver parameters against the user's values, column by column
        vals = opti.value_parameters()
        bad, n = [], 0
        for kind, lst in (("", meth.P), ("control", meth.P_control), ("control+", meth.P_control_plus)):
            for i, P in enumerate(lst):
                if (kind, i) not in spec.pvals:
                    continue
                want = np.array(ca.DM(spec.pvals[(kind, i)]))
                members = [P] if kind == "" else list(P)
                ncol = ca.MX(members[0]).shape[1]
                for k, sym in enumerate(members):
                    n += 1
                    got = np.array(opti.debug.value(ca.MX(sym), vals)).reshape(ca.MX(sym).shape)
                    w = want if kind == "" else want[:, k * ncol:(k + 1) * ncol]
                    if got.shape != w.shape or not np.allclose(got, w, rtol=1e-12, atol=1e-12):
                        bad.append(dict(parameter="%s #%d" % (kind or "global", i), member=k, observed=got.tolist(), expected_user_value=w.tolist()))
        if bad:
            return dict(status="confirmed", failing_input=out["instance"], problems=[dict(what="solver parameter values differ from the user's values", entries=bad[:6], count=len(bad), checked=n)], **out)
        return dict(status="not-reproduced", detail="all %d solver parameters carry the user's values" % n, **out)
    if "set_initial:ensures:start[" in p.get("obligation", "") or (p.get("parts") and list(p["parts"]) == ["init"]) or p.get("force") == "init":
        from contracts.oracle import expected_initial
        bad = []
        n = 0
        start = opti.initial()
        for tag, handle, exp in expected_initial(spec, meth, spec.initial_realised):
            n += 1
            try:
                got = np.array(opti.debug.value(ca.MX(handle), start)).reshape(-1)
            except Exception as e:
                bad.append(dict(variable="/".join(str(t) for t in tag), observed="cannot be read back: %s" % str(e)[:100]))
                continue
            want = np.array(opti.debug.value(ca.MX(exp), start)).reshape(-1)
            if got.shape != want.shape or np.max(np.abs(got - want)) > 1e-9 * (1 + np.max(np.abs(want))):
                bad.append(dict(variable="/".join(str(t) for t in tag), observed=got.tolist(), expected=want.tolist()))
        if bad:
            return dict(status="confirmed", failing_input=dict(instance=out["instance"], guesses=[(str(t), str(v)[:80]) for t, v in spec.initial_realised]),
                        problems=[dict(what="starting values differ from the guesses", variables=bad[:8], count=len(bad), checked=n)], **out)
        return dict(status="not-reproduced", detail="all %d starting values equal the guess oracle" % n, **out)
    with contextlib.redirect_stdout(io.StringIO()):
        orc = Oracle(spec, meth).expected()
    x, par = opti.x, opti.p
    rows_ = [r for r in orc.rows if r["kind"] != "free"]       # rows without any bound restrict nothing: not compared natively
    exp = [ca.MX(r["r"]) for r in rows_]
    tags = []
    for r in rows_:
        for i in range(ca.MX(r["r"]).numel()):
            tags.append((r["kind"], "/".join(str(t) for t in r["tag"] + (i,))))
    extra = []
    ss = None
    if p.get("parts") and "ss-states" in p["parts"] and spec.method == "SS":
        extra = [ca.vcat([ca.MX(a) for a in meth.X]), ca.vcat([ca.MX(a) for a in orc.X])]
    outs = [opti.g, opti.lbg, opti.ubg, ca.veccat(*exp) if exp else ca.MX(0, 1), opti.f, ca.MX(orc.J)] + extra
    # Opti lists only the symbols that occur in the problem (opti.x / opti.p): a declared parameter column or variable
    # that the transcription never uses is still a legitimate operand of the oracle -> extra input with its set value
    known = ca.vertcat(x, par)
    inactive = [s_ for s_ in ca.symvar(ca.veccat(*[ca.vec(o) for o in outs])) if not ca.depends_on(known, s_)]
    F = ca.Function("F", [x, par] + inactive, outs)
    if F.has_free():
        return dict(status="error", detail="free symbols %s" % F.get_free(), **out)
    rs = np.random.RandomState(p.get("seed", 0))
    pv = np.array(opti.debug.value(par, opti.value_parameters())).reshape(-1) if par.numel() else np.zeros(0)
    iv = []
    for s_ in inactive:
        try:
            iv.append(np.array(opti.debug.value(s_, opti.value_parameters())))
        except Exception:
            iv.append(rs.uniform(0.3, 1.4, size=s_.shape))
    xs, G, L, U, EXP, Fv, Jv, XS = [], [], [], [], [], [], [], []
    for _ in range(3):
        xv = rs.uniform(0.3, 1.4, size=x.numel())
        o = [np.array(v).reshape(-1) for v in F(xv, pv, *iv)]
        xs.append(xv); G.append(o[0]); L.append(o[1]); U.append(o[2]); EXP.append(o[3]); Fv.append(o[4]); Jv.append(o[5])
        if extra:
            XS.append((o[6], o[7]))
    tol = 1e-7
    problems = []
    # objective
    for a, b in zip(Fv, Jv):
        if abs(a[0] - b[0]) > tol * (1 + abs(b[0])):
            problems.append(dict(what="objective", observed=float(a[0]), expected=float(b[0])))
            break
    for a, b in XS:
        if np.max(np.abs(a - b)) > tol * (1 + np.max(np.abs(b))):
            problems.append(dict(what="single-shooting states", observed=a.tolist(), expected=b.tolist()))
            break
    # rows as multisets: signature = values at the three points
    em = rows_of(G[0], L[0], U[0])
    em_sig = []
    for kind, i, _ in em:
        vals = []
        for q in range(3):
            rr = rows_of(G[q], L[q], U[q])
        em_sig = None
        break
    per_point = [rows_of(G[q], L[q], U[q]) for q in range(3)]
    n_em = len(per_point[0])
    em_rows = [(per_point[0][j][0], per_point[0][j][1], np.array([per_point[q][j][2] for q in range(3)])) for j in range(n_em)]
    ex_rows = [(tags[j][0], tags[j][1], np.array([EXP[q][j] for q in range(3)])) for j in range(len(tags))]
    used = [False] * n_em
    missing = []
    for kind, tag, v in ex_rows:
        hit = None
        for j, (k2, _, w) in enumerate(em_rows):
            if not used[j] and k2 == kind and np.all(np.abs(v - w) <= tol * (1 + np.abs(v))):
                hit = j
                break
        if hit is None:
            missing.append(dict(row=tag, kind=kind, expected_residuals=v.tolist()))
        else:
            used[hit] = True
    extra_rows = [dict(kind=k, g_index=int(i), residuals=w.tolist()) for (k, i, w), u in zip(em_rows, used) if not u]
    # grid-coupling rows (rows over the stage's own time symbols only) are judged by the engine (semantic equivalence with
    # the declared partition); natively an unmatched row counts only when it involves anything else
    if extra_rows:
        both = ca.vertcat(x, par)
        tv = [ca.vec(ca.MX(e)) for lst in (getattr(meth, "T_local", []), getattr(meth, "t0_local", [])) for e in lst if e is not None] + [ca.vec(ca.MX(meth.T)), ca.vec(ca.MX(meth.t0))]
        tcols = set(np.nonzero(np.array(ca.DM(ca.jacobian(ca.vcat(tv), both).sparsity(), 1)).sum(axis=0))[0])
        Jg = np.array(ca.DM(ca.jacobian(opti.g, both).sparsity(), 1))
        extra_rows = [r for r in extra_rows if not (set(np.nonzero(Jg[r["g_index"]])[0]) and set(np.nonzero(Jg[r["g_index"]])[0]) <= tcols)]
    if missing:
        problems.append(dict(what="rows expected by the declaration but absent from the NLP", rows=missing[:6], count=len(missing)))
    parts = p.get("parts") or []
    if extra_rows and "frame" in parts and not missing:
        problems.append(dict(what="NLP rows that no declaration accounts for (grid-coupling rows excluded)", rows=extra_rows[:6], count=len(extra_rows)))
    if problems:
        return dict(status="confirmed", failing_input=dict(instance=out["instance"], x=xs[0].tolist(), p=pv.tolist()),
                    problems=problems, n_emitted=n_em, n_expected=len(ex_rows), **out)
    return dict(status="not-reproduced", detail="real rockit NLP equals the oracle at 3 random points (%d rows)" % n_em, **out)


def nlp_diff_any(p):
    """a refuted UNBOUNDED obligation: look for a concrete failing instance among the bounded families"""
    from contracts import catalog
    tried = []
    for prop, fam_filter in p["families"]:
        for label, fac in catalog.FAMILIES[prop]("thorough"):
            if fam_filter and not any(f in label for f in fam_filter):
                continue
            q = dict(p, prop=prop, label=label, harness="nlp_diff")
            if p.get("force") == "add_variables":
                r = nlp_diff(dict(q, force="scaling"))
                if r.get("status") != "confirmed":
                    r = nlp_diff(dict(q, force="handles"))
            else:
                r = nlp_diff(q)
            tried.append(label)
            if r.get("status") == "confirmed":
                r["searched"] = tried
                return r
            if len(tried) >= p.get("max_instances", 40):
                break
    return dict(status="no-instance-found", detail="none of %d bounded instances reproduces the refuted obligation natively" % len(tried), searched=tried)


HARNESS = dict(nlp_diff=nlp_diff, nlp_diff_any=nlp_diff_any)


def main():
    p = json.load(sys.stdin)
    try:
        h = HARNESS.get(p.get("harness"))
        if h is None:
            from replay import harnesses
            h = getattr(harnesses, p["harness"])
        res = h(p)
    except Exception as e:
        res = dict(status="error", detail="".join(traceback.format_exception(type(e), e, e.__traceback__))[-1500:])
    print(json.dumps(res, default=str))
    return 0 if res.get("status") != "confirmed" else 1


if __name__ == "__main__":
    sys.exit(main())
