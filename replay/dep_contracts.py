"""
Validation of the ASSUMED dependency contracts (model/casadi) against the real CasADi by sampling.

The same list of operations is evaluated
  * natively  (`/venv/bin/python replay/dep_contracts.py --dump`): real CasADi, results as JSON,
  * in the engine (import cases(); evaluate on model/casadi with the same numeric inputs),
and shapes / values are compared (vc.validate).  A disagreement is a defect of the checker (exit 3), never a
property verdict.  Back-end agnostic: only the casadi API is used.
"""
import json
import sys

import numpy as np


def mats(ca, seed):
    rs = np.random.RandomState(seed)
    def M(r, c):
        return ca.DM(np.round(rs.uniform(-2, 2, size=(r, c)), 3))
    return dict(A=M(2, 3), B=M(2, 3), C=M(3, 2), v=M(3, 1), w=M(3, 1), r=M(1, 4), s=ca.DM(1.5), E=M(2, 6), sq=M(3, 3), p=M(2, 1), t=ca.DM(0.7))


def cases():
    """name -> function(ca, m) returning a numeric matrix (or list of matrices)"""
    C = {}
    C["add"] = lambda ca, m: m["A"] + m["B"]
    C["sub-scalar"] = lambda ca, m: m["A"] - m["s"]
    C["mul-elementwise"] = lambda ca, m: m["A"] * m["B"]
    C["div"] = lambda ca, m: m["A"] / (m["B"] + 5)
    C["pow-int"] = lambda ca, m: m["A"] ** 3
    C["pow0"] = lambda ca, m: m["A"] ** 0
    C["neg"] = lambda ca, m: -m["A"]
    C["broadcast-col"] = lambda ca, m: m["E"] / (m["p"] + 4)
    C["broadcast-cols-multiple"] = lambda ca, m: m["E"] + m["A"]
    C["matmul"] = lambda ca, m: ca.mtimes(m["A"], m["C"])
    C["matmul-op"] = lambda ca, m: m["A"] @ m["v"]
    C["transpose"] = lambda ca, m: m["A"].T
    C["vertcat"] = lambda ca, m: ca.vertcat(m["A"], m["B"])
    C["horzcat"] = lambda ca, m: ca.horzcat(m["A"], m["B"])
    C["vcat-empty"] = lambda ca, m: ca.vertcat(ca.MX(0, 1), m["v"], ca.MX())
    C["veccat"] = lambda ca, m: ca.veccat(m["A"], m["v"])
    C["vvcat"] = lambda ca, m: ca.vvcat([m["A"], m["C"]])
    C["vec"] = lambda ca, m: ca.vec(m["A"])
    C["index-linear"] = lambda ca, m: m["A"][4]
    C["index-neg"] = lambda ca, m: m["A"][-1]
    C["slice-row-vector"] = lambda ca, m: m["r"][1:3]
    C["slice-col-vector"] = lambda ca, m: m["v"][1:]
    C["slice-matrix-linear"] = lambda ca, m: m["A"][1:4]
    C["slice-cols"] = lambda ca, m: m["A"][:, 1:]
    C["slice-col"] = lambda ca, m: m["A"][:, -1]
    C["slice-row"] = lambda ca, m: m["A"][1, :]
    C["slice-drop-last"] = lambda ca, m: m["r"][:-1]
    C["index-list"] = lambda ca, m: m["v"][[0, 2]]
    C["index-dm"] = lambda ca, m: m["A"][:, ca.DM([0, 2]).T]
    C["nz"] = lambda ca, m: m["A"].nz[1:4]
    C["sum1"] = lambda ca, m: ca.sum1(m["A"])
    C["sum2"] = lambda ca, m: ca.sum2(m["A"])
    C["cumsum"] = lambda ca, m: ca.cumsum(m["v"])
    C["diff-col"] = lambda ca, m: ca.diff(m["v"])
    C["diff-row"] = lambda ca, m: ca.diff(m["r"])
    C["repmat"] = lambda ca, m: ca.repmat(m["p"], 1, 3)
    C["repmat-rows"] = lambda ca, m: ca.repmat(m["r"], 2, 1)
    C["kron"] = lambda ca, m: ca.kron(m["p"], ca.DM.ones(1, 3))
    C["kron-left"] = lambda ca, m: ca.kron(ca.DM.ones(1, 2), m["A"])
    C["horzsplit-each"] = lambda ca, m: ca.horzsplit(m["A"])
    C["horzsplit-incr"] = lambda ca, m: ca.horzsplit(m["E"], 2)
    C["horzsplit-offsets"] = lambda ca, m: ca.horzsplit(m["E"], [0, 1, 3, 6])
    C["linspace"] = lambda ca, m: ca.linspace(ca.DM(0.5), ca.DM(2.0), 4)
    C["linspace-mx"] = lambda ca, m: ca.evalf(ca.linspace(ca.MX(0), ca.MX(m["s"]), 3))
    C["constpow"] = lambda ca, m: ca.constpow(m["s"], range(4))
    C["constpow-vec"] = lambda ca, m: ca.constpow(m["v"] + 3, 2)
    C["dot"] = lambda ca, m: ca.dot(m["v"], m["w"])
    C["sumsqr"] = lambda ca, m: ca.sumsqr(m["v"])
    C["ones-times"] = lambda ca, m: ca.DM.ones(m["A"].sparsity()) * 2.5
    C["empty-plus-empty"] = lambda ca, m: ca.DM([list((ca.DM.zeros(0) + ca.MX(0, 2)).shape)])
    C["hcat-empty-list"] = lambda ca, m: ca.DM([list(ca.hcat([]).shape), list(ca.vcat([]).shape)])
    C["compare-le"] = lambda ca, m: ca.evalf(ca.MX(m["A"]) <= 0.3)
    C["is_equal"] = lambda ca, m: ca.DM([float(ca.is_equal(ca.MX(m["A"]), ca.MX(m["A"]))) if False else 1.0])

    def subst(ca, m):
        x = ca.MX.sym("x", 3); y = ca.MX.sym("y", 2)
        e = ca.vertcat(x[0] * y[1] + x[2] ** 2, ca.sum1(x) - y[0])
        return ca.evalf(ca.substitute([e], [x, y], [ca.MX(m["v"]), ca.MX(m["p"])])[0])
    C["substitute"] = subst

    def subst_shapes(ca, m):
        # substitute follows the argument rules of a Function call: empty replacement = zeros, scalar = broadcast,
        # transposed vector accepted
        x = ca.MX.sym("x", 3); y = ca.MX.sym("y", 2); z = ca.MX.sym("z")
        e = ca.vertcat(x[0] * y[1] + x[2] ** 2 + z, ca.sum1(x) - y[0])
        return ca.evalf(ca.substitute([e], [x, y, z], [ca.MX(m["v"]).T, ca.MX(m["s"]), ca.MX(0, 1)])[0])
    C["substitute-empty-scalar-transposed"] = subst_shapes

    def fun_named(ca, m):
        x = ca.MX.sym("x", 3); u = ca.MX.sym("u", 2)
        f = ca.Function("f", [x, u], [x[0] * u, ca.vertcat(x, u).T], ["x", "u"], ["a", "b"])
        r = f(x=ca.MX(m["v"]), u=ca.MX(m["p"]))
        return [ca.evalf(r["a"]), ca.evalf(r["b"]), ca.DM([f.numel_out("a"), f.size_out(1)[1], float(f.has_free())])]
    C["function-named-call"] = fun_named

    def fun_default(ca, m):
        x = ca.MX.sym("x", 3); u = ca.MX.sym("u", 2)
        f = ca.Function("f", [x, u], [ca.sum1(x) + ca.sum1(u)], ["x", "u"], ["a"])
        return ca.evalf(f(x=ca.MX(m["v"]))["a"])
    C["function-missing-input-is-zero"] = fun_default

    def fun_map(ca, m):
        x = ca.MX.sym("x", 2); t = ca.MX.sym("t")
        f = ca.Function("f", [t, x], [x * t, t ** 2])
        r = f(ca.MX(ca.DM([[1.0, 2.0, 3.0]])), ca.MX(m["A"]))
        return [ca.evalf(r[0]), ca.evalf(r[1])]
    C["function-map-call"] = fun_map

    def fun_scalar_empty(ca, m):
        x = ca.MX.sym("x", 2); z = ca.MX.sym("z", 0, 1)
        f = ca.Function("f", [x, z], [2 * x])
        return ca.evalf(f(ca.MX(m["p"]), float("nan")))
    C["function-scalar-for-empty-input"] = fun_scalar_empty

    def jt(ca, m):
        x = ca.MX.sym("x", 3); t = ca.MX.sym("t")
        e = ca.vertcat(x[0] * x[1] + t * x[2], x[2] ** 3 / (2 + t))
        d = ca.jtimes(e, ca.vertcat(x, t), ca.vertcat(ca.MX(m["w"]), 1))
        return ca.evalf(ca.substitute([d], [x, t], [ca.MX(m["v"]), ca.MX(m["t"])])[0])
    C["jtimes"] = jt

    def jac(ca, m):
        x = ca.MX.sym("x", 3)
        e = ca.vertcat(x[0] * x[1], x[2] ** 2 + x[0])
        return ca.evalf(ca.substitute([ca.jacobian(e, x)], [x], [ca.MX(m["v"])])[0])
    C["jacobian"] = jac

    def canon(ca, m):
        o = ca.Opti()
        v = o.variable(2); p = o.parameter()
        a = o.advanced
        out = []
        for cs in (v[0] <= p, 0 <= (v[1] <= 3), v[0] * v[1] == 1, v >= 0, p * v[0] <= v[1], v[0] == p, p <= v[0], 3 == v[0] + v[1], v[0] >= v[1]):
            mc = a.canon_expr(cs)
            r = ca.substitute([ca.MX(mc.lb), ca.MX(mc.canon), ca.MX(mc.ub)], [v, p], [ca.MX(m["p"]), ca.MX(m["s"])])
            out.append(ca.DM([float(mc.type)]))
            out.extend([ca.vec(ca.evalf(q)) for q in r])
        return out
    C["opti-canon_expr"] = canon

    def optiset(ca, m):
        o = ca.Opti()
        v = o.variable(2); w = o.variable(); p = o.parameter()
        o.set_initial(ca.vertcat(3 * v[0], 2 * v[1] + 1), ca.DM([6.0, 5.0]))
        o.set_initial(w, 4)
        o.set_value(p, 1.25)
        vals = o.initial() + o.value_parameters()
        return [ca.DM(o.debug.value(ca.vertcat(v, w, p), vals)), ca.DM(o.debug.value(v[0] * w + p, vals))]
    C["opti-set_initial-affine"] = optiset

    def optierr(ca, m):
        o = ca.Opti()
        v = o.variable(2); p = o.parameter()
        out = []
        for key, val in ((v[0] + v[1], 3), (p, 3), (ca.hcat([v[0], 5 * v[1], v[0]]), ca.DM([[7, 10, 9]]))):
            try:
                o.set_initial(key, val)
                out.append(0.0)
            except Exception:
                out.append(1.0)
        try:
            o.subject_to(ca.MX(1) <= 0)
            out.append(0.0)
        except Exception:
            out.append(1.0)
        try:
            o.subject_to(v[0] <= ca.MX.sym("alien"))
            o.minimize(v[0])
            o.solver("ipopt", {"ipopt.print_level": 0, "print_time": False})
            o.solve()
            out.append(0.0)
        except Exception:
            out.append(1.0)
        return ca.DM(out)
    C["opti-rejections"] = optierr

    def colloc(ca, m):
        out = []
        for d in (1, 2, 3, 4):
            for sch in ("radau", "legendre"):
                tau = ca.collocation_points(d, sch)
                Cm, D, B = ca.collocation_coeff(tau)
                out += [ca.DM(tau), ca.vec(ca.DM(Cm)), ca.vec(ca.DM(D)), ca.vec(ca.DM(B))]
        return out
    C["collocation-tables"] = colloc

    def lowf(ca, m):
        t = ca.MX.sym("t")
        g = ca.DM([0.0, 0.5, 2.0, 2.5])
        F = ca.Function("F", [t], [ca.low(g, t), ca.low(g, t, {"lookup_mode": "exact"})])
        out = []
        for tv in (0.0, 0.2, 0.5, 1.9, 2.0, 2.4, 2.5):
            r = F(tv)
            out.append(ca.vertcat(ca.DM(r[0]), ca.DM(r[1])))
        return out
    C["low"] = lowf

    def symidx(ca, m):
        t = ca.MX.sym("t")
        g = ca.DM([0.0, 0.5, 2.0, 2.5])
        Mx = ca.MX(m["E"])
        i = ca.low(g, t)
        F = ca.Function("F", [t], [Mx[:, i * 2 + ca.DM(range(2)).T], ca.MX(g)[i]])
        out = []
        for tv in (0.2, 1.0, 2.2):
            out += [ca.DM(q) for q in F(tv)]
        return out
    C["symbolic-index"] = symidx
    return C


def to_lists(ca, r):
    if not isinstance(r, (list, tuple)):
        r = [r]
    out = []
    for x in r:
        if isinstance(x, ca.MX):
            x = ca.evalf(x)
        x = ca.DM(x) if not isinstance(x, ca.DM) else x
        a = np.array(x, dtype=float).reshape(x.shape) if x.numel() else np.zeros(x.shape)
        out.append(dict(shape=list(x.shape), values=[None if v != v else (1e300 if v == float("inf") else (-1e300 if v == float("-inf") else float(v))) for v in a.reshape(-1, order="F")]))
    return out


def evaluate(ca, seeds=(0, 1)):
    res = {}
    for seed in seeds:
        m = mats(ca, seed)
        for name, fn in cases().items():
            try:
                res["%s#%d" % (name, seed)] = to_lists(ca, fn(ca, m))
            except Exception as e:
                res["%s#%d" % (name, seed)] = dict(error="%s: %s" % (type(e).__name__, str(e)[:120]))
    return res


if __name__ == "__main__":
    import casadi
    print(json.dumps(evaluate(casadi, seeds=[int(s) for s in sys.argv[2:]] or (0, 1))))
