"""Native bounded stand-in for the SplineMethod clauses of C17 (rockit/spline_method.py cannot be executed on the casadi
model: it leans on sparsity queries, linear_coeff, Function.map, Opti.advanced; it CAN be executed on the real CasADi once
networkx -- present in the tooling venv only -- is put on the path).  For integrator-chain systems with mixed chain
lengths and vector states, several N, T != 1, t0 != 0, uniform and geometric grids, at random decision vectors:
  A  every state / control sampled at any refinement equals the Cox-de Boor evaluation of its 'gist' coefficients, with
     degree = (number of coefficients - N);
  B  the 'gist' times are t0 + T * (Greville points of the clamped knot vector);
  C  the declared integrator-chain dynamics hold IDENTICALLY in time: the coefficients of the lower-order member of a chain
     are the analytic derivative coefficients (per unit physical time) of the higher-order one;
  D  a path constraint with refine=r is imposed at every one of the N*r+1 refined grid points, with the value of the
     constrained expression at that point.
Never counted as proved; the equivalence of optimisers with the shooting methods is not addressed."""
import json
import sys
import numpy as np


def clamped(xi, d):
    return [xi[0]] * d + list(xi) + [xi[-1]] * d


def basis(K, d, x):
    n0 = len(K) - 1
    Nv = [0.0] * n0
    idx = None
    for j in range(n0):
        if K[j] <= x < K[j + 1]:
            idx = j
    if idx is None:
        idx = max(j for j in range(n0) if K[j] < K[j + 1])
    Nv[idx] = 1.0
    for e in range(1, d + 1):
        M = [0.0] * (n0 - e)
        for j in range(n0 - e):
            v = 0.0
            if K[j + e] != K[j]:
                v += (x - K[j]) / (K[j + e] - K[j]) * Nv[j]
            if K[j + e + 1] != K[j + 1]:
                v += (K[j + e + 1] - x) / (K[j + e + 1] - K[j + 1]) * Nv[j + 1]
            M[j] = v
        Nv = M
    return np.array(Nv)


def systems():
    def s1(ocp):
        p = ocp.state(); v = ocp.state(); a = ocp.control()
        ocp.set_der(p, v); ocp.set_der(v, a)
        return dict(chains=[[("p", p), ("v", v), ("a", a)]], con=lambda: p + 0.3 * v - 0.1 * a)
    def s2(ocp):
        p = ocp.state(2); v = ocp.state(2); a = ocp.control(2); q = ocp.state(); w = ocp.control()
        ocp.set_der(p, v); ocp.set_der(v, a); ocp.set_der(q, w)
        return dict(chains=[[("p0", p[0]), ("v0", v[0]), ("a0", a[0])], [("p1", p[1]), ("v1", v[1]), ("a1", a[1])], [("q", q), ("w", w)]],
                    con=lambda: p[0] * v[1] + q - 0.2 * a[0])
    def s3(ocp):
        x = ocp.state(); c = ocp.control(order=2)
        ocp.set_der(x, c)
        return dict(chains=[[("x", x), ("c", c), ("dc", ocp.der(c)), ("ddc", ocp.der(ocp.der(c)))]], con=lambda: x - c + 0.5 * ocp.der(c))
    return dict(double_integrator=s1, mixed_vector_chains=s2, higher_order_control=s3)


def greville_kernel(out):
    """rockit.splines.micro_spline.get_greville_points against the definition: coefficient i of a degree-d spline on the
    clamped knot vector K sits at mean(K[i+1..i+d]); degree 0: at the middle of knot span i"""
    import casadi as ca
    from rockit.splines.micro_spline import get_greville_points
    for N in range(1, 9):
        uni = np.linspace(0, 1, N + 1)
        geo = np.concatenate([[0.0], np.cumsum(2.0 ** np.arange(N))]); geo = geo / geo[-1]
        irr = np.concatenate([[0.0], np.cumsum(1.0 + 0.37 * ((np.arange(N) * 7) % 5))]); irr = irr / irr[-1]
        for kname, xi in (("uniform", uni), ("geometric", geo), ("irregular", irr)):
            for d in range(0, 5):
                tag = "N=%d,d=%d,%s" % (N, d, kname)
                try:
                    got = np.array(ca.evalf(ca.DM(get_greville_points(ca.DM(xi.reshape(1, -1)), d)))).reshape(-1)
                except Exception as e:
                    out.append(dict(what="greville-points", config=tag, ok=False, detail="%s: %s" % (type(e).__name__, str(e)[:160])))
                    continue
                K = clamped(list(xi), d)
                want = np.array([np.mean(K[i + 1:i + d + 1]) for i in range(N + d)]) if d > 0 else (xi[1:] + xi[:-1]) / 2
                ok = got.shape == want.shape and np.max(np.abs(got - want)) < 1e-12
                out.append(dict(what="greville-points", config=tag, ok=bool(ok), detail="" if ok else "get_greville_points %s vs definition %s" % (np.round(got, 6).tolist(), np.round(want, 6).tolist())))


def main():
    import casadi as ca
    from rockit import Ocp, SplineMethod, UniformGrid, GeometricGrid
    out = []
    greville_kernel(out)
    rs = np.random.RandomState(0)
    UB = 1234.5
    UB2 = 4321.5
    for sname, build in systems().items():
        for N in (2, 3, 5):
            for T in (1.0, 2.5):
                for gname, grid in (("uniform", UniformGrid()), ("geometric", GeometricGrid(2))):
                    for refine in (1, 2, 3):
                        if (N, refine) in ((5, 3),) and T == 1.0:
                            continue
                        tag = "%s,N=%d,T=%g,%s,refine=%d" % (sname, N, T, gname, refine)
                        t0 = 0.5
                        try:
                            ocp = Ocp(t0=t0, T=T)
                            S = build(ocp)
                            ocp.subject_to(S["con"]() <= UB, refine=refine)
                            # a second path constraint with ANOTHER refinement (non-dividing where possible): each on its own grid
                            refine2 = {1: 2, 2: 3, 3: 2}[refine]
                            first = S["chains"][0][0][1]
                            ocp.subject_to(first <= UB2, refine=refine2)
                            ocp.add_objective(ocp.at_tf(S["chains"][0][0][1]))
                            ocp.method(SplineMethod(N=N, grid=grid)); ocp.solver("ipopt")
                            ocp._transcribed
                            m = ocp._augmented._method
                            opti = m.opti
                            xi = np.array(ca.evalf(ca.DM(m.xi))).reshape(-1)
                            exprs, names = [], []
                            for chain in S["chains"]:
                                for nm, e in chain:
                                    tg, cg = ocp.sample(e, grid="gist")
                                    ts, vs = ocp.sample(e, grid="control", refine=refine)
                                    exprs += [ca.vec(ca.MX(tg)), ca.vec(ca.MX(cg)), ca.vec(ca.MX(ts)), ca.vec(ca.MX(vs))]
                                    names.append(nm)
                            tr, cr = ocp.sample(S["con"](), grid="control", refine=refine)
                            tr2, cr2 = ocp.sample(first, grid="control", refine=refine2)
                            F = ca.Function("F", [opti.x, opti.p], exprs + [ca.vec(ca.MX(cr)), opti.g, opti.lbg, opti.ubg, ca.vec(ca.MX(cr2))])
                            xv = rs.uniform(-1, 1, size=opti.x.numel())
                            res = [np.array(r).reshape(-1) for r in F(xv, np.zeros(opti.p.numel()))]
                        except Exception as e:
                            out.append(dict(what="transcribes", config=tag, ok=False, detail="%s: %s" % (type(e).__name__, str(e)[:200])))
                            continue
                        k = 0
                        coeffs = {}
                        okA = okB = True
                        dA = dB = ""
                        for nm in names:
                            tg, cg, ts, vs = res[k:k + 4]; k += 4
                            d = len(cg) - N
                            K = clamped(list(xi), d)
                            coeffs[nm] = (cg, d)
                            want = np.array([cg @ basis(K, d, min(max((t - t0) / T, xi[0]), xi[-1])) for t in ts]) if d > 0 else None
                            if d > 0 and (len(ts) != N * refine + 1 or np.max(np.abs(want - vs)) > 1e-9 * (1 + np.max(np.abs(want)))):
                                okA, dA = False, "%s: samples %s vs Cox-de Boor of the gist coefficients %s" % (nm, np.round(vs, 5).tolist()[:6], np.round(want, 5).tolist()[:6])
                            if d >= 0:
                                # degree 0 (piecewise constant): the coefficient of knot span i sits at the middle of that span
                                gre = np.array([np.mean(K[i + 1:i + d + 1]) for i in range(len(cg))]) if d > 0 else (xi[1:] + xi[:-1]) / 2
                                if len(tg) != len(cg) or np.max(np.abs(tg - (t0 + T * gre))) > 1e-9:
                                    okB, dB = False, "%s: gist times %s vs t0+T*Greville %s" % (nm, np.round(tg, 5).tolist(), np.round(t0 + T * gre, 5).tolist())
                        out.append(dict(what="samples-are-cox-de-boor-of-gist-coefficients", config=tag, ok=bool(okA), detail=dA))
                        out.append(dict(what="gist-times-are-greville-points", config=tag, ok=bool(okB), detail=dB))
                        okC, dC = True, ""
                        for chain in S["chains"]:
                            for (hi, _), (lo, _) in zip(chain, chain[1:]):
                                ch, d = coeffs[hi]
                                cl, dl = coeffs[lo]
                                if d < 1:
                                    continue
                                K = clamped(list(xi), d)
                                want = np.array([d * (ch[i + 1] - ch[i]) / (K[i + d + 1] - K[i + 1]) for i in range(len(ch) - 1)]) / T
                                if dl != d - 1 or len(cl) != len(want) or np.max(np.abs(want - cl)) > 1e-9 * (1 + np.max(np.abs(want))):
                                    okC, dC = False, "d/dt %s is not %s identically: derivative coefficients %s vs coefficients of %s %s" % (hi, lo, np.round(want, 5).tolist(), lo, np.round(cl, 5).tolist())
                        out.append(dict(what="chain-dynamics-hold-identically-in-time", config=tag, ok=bool(okC), detail=dC))
                        cvals, g, lbg, ubg = res[k], res[k + 1], res[k + 2], res[k + 3]
                        rows = [i for i in range(len(g)) if abs(ubg[i] - UB) < 1e-9]
                        okD = len(rows) == N * refine + 1 and len(cvals) == N * refine + 1 and np.max(np.abs(np.sort(g[rows]) - np.sort(cvals))) < 1e-9 * (1 + np.max(np.abs(cvals)))
                        c2 = res[k + 4]
                        rows2 = [i for i in range(len(g)) if abs(ubg[i] - UB2) < 1e-9]
                        okE = len(rows2) == N * refine2 + 1 and len(c2) == N * refine2 + 1 and np.max(np.abs(np.sort(g[rows2]) - np.sort(c2))) < 1e-9 * (1 + np.max(np.abs(c2)))
                        out.append(dict(what="second-path-constraint-on-its-own-refined-grid(refine=%d)" % refine2, config=tag, ok=bool(okE),
                                        detail="" if okE else "%d rows with the second constraint's bound (expected %d = N*%d+1); rows %s, expression at its refined points %s" % (len(rows2), N * refine2 + 1, refine2, np.round(np.sort(g[rows2]), 4).tolist()[:8], np.round(np.sort(c2), 4).tolist()[:8])))
                        out.append(dict(what="path-constraint-at-every-refined-grid-point", config=tag, ok=bool(okD),
                                        detail="" if okD else "%d rows with the constraint's bound (expected %d); rows %s, expression at the refined points %s" % (len(rows), N * refine + 1, np.round(np.sort(g[rows]), 4).tolist()[:8], np.round(np.sort(cvals), 4).tolist()[:8])))
    return out


if __name__ == "__main__":
    print(json.dumps(main()))
