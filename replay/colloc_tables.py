"""Native (real CasADi + real rockit) check of the collocation data DirectCollocation.__init__ stores."""
import json
import numpy as np
from numpy.polynomial import legendre as L


def lagrange(t, j):
    p = np.poly1d([1.0])
    for r in range(len(t)):
        if r != j:
            p *= np.poly1d([1.0, -t[r]]) / (t[j] - t[r])
    return p


def main():
    from rockit import DirectCollocation
    out = []
    for d in range(1, 8):
        for scheme in ("radau", "legendre"):
            m = DirectCollocation(degree=d, scheme=scheme, N=1)
            tau = [float(t) for t in m.tau]
            C, D, B = np.array(m.C), np.array(m.D).reshape(-1), np.array(m.B).reshape(-1)
            out.append(dict(what="tables", degree=d, scheme=scheme, ok=True, tau=tau, C=C.reshape(-1, order="F").tolist(), D=D.tolist(), B=B.tolist()))
            # CasADi's own tables (for the validation of the casadi model; independent of rockit)
            import casadi
            ctau = casadi.collocation_points(d, scheme)
            cC, cD, cB = casadi.collocation_coeff(ctau)
            out.append(dict(what="casadi-tables", degree=d, scheme=scheme, ok=True, tau=[float(t) for t in ctau], C=np.array(cC).reshape(-1, order="F").tolist(),
                            D=np.array(cD).reshape(-1).tolist(), B=np.array(cB).reshape(-1).tolist()))
            # nodes: shifted Legendre roots / Radau IIA points
            xs = 2 * np.array(tau) - 1
            cf = np.zeros(d + 1); cf[d] = 1.0
            if scheme == "legendre":
                res = L.legval(xs, cf)
            else:
                cf2 = np.zeros(d + 1); cf2[d] = 1.0; cf2[d - 1] = -1.0
                res = L.legval(xs, cf2)
            ok = np.max(np.abs(res)) < 1e-9 and all(0 < t <= 1 for t in tau) and tau == sorted(tau)
            out.append(dict(what="nodes-are-%s-points" % ("gauss" if scheme == "legendre" else "radau-IIA"), degree=d, scheme=scheme, ok=bool(ok), detail="max |P(tau)| = %.2e" % np.max(np.abs(res))))
            t = [0.0] + tau
            Cw = np.array([[np.polyder(lagrange(t, r))(t[j + 1]) for j in range(d)] for r in range(d + 1)])
            Dw = np.array([lagrange(t, r)(1.0) for r in range(d + 1)])
            okC = C.shape == Cw.shape and np.max(np.abs(C - Cw)) < 1e-9
            okD = np.max(np.abs(D - Dw)) < 1e-9
            out.append(dict(what="C-is-lagrange-derivative-at-nodes", degree=d, scheme=scheme, ok=bool(okC), detail="max dev %.2e" % (np.max(np.abs(C - Cw)) if C.shape == Cw.shape else -1)))
            out.append(dict(what="D-is-lagrange-value-at-1", degree=d, scheme=scheme, ok=bool(okD), detail="max dev %.2e" % np.max(np.abs(D - Dw))))
            # quadrature order conditions
            q = 2 * d - 1 if scheme == "radau" else 2 * d
            worst, wm = 0.0, None
            for mm in range(q):
                dev = abs(sum(B[j] * tau[j] ** mm for j in range(d)) - 1.0 / (mm + 1))
                if dev > worst:
                    worst, wm = dev, mm
            out.append(dict(what="B-satisfies-quadrature-order-conditions-up-to-%s" % ("2d-1" if scheme == "radau" else "2d"), degree=d, scheme=scheme, ok=bool(worst < 1e-9),
                            detail="worst deviation %.3g for m=%s (sum_j B_j tau_j^m vs 1/(m+1)); B=%s" % (worst, wm, np.round(B, 6).tolist())))
            out.append(dict(what="B-integrates-constants-exactly", degree=d, scheme=scheme, ok=bool(abs(sum(B) - 1) < 1e-9), detail="sum B = %.12g" % sum(B)))
    # a method object depends on its own arguments only: same tables when the objects are built in another order
    first = {(r["degree"], r["scheme"]): r for r in out if r["what"] == "tables"}
    for d in range(7, 0, -1):
        for scheme in ("legendre", "radau"):
            m = DirectCollocation(degree=d, scheme=scheme, N=1)
            r = first[(d, scheme)]
            same = [float(t) for t in m.tau] == r["tau"] and np.array(m.C).reshape(-1, order="F").tolist() == r["C"] and \
                np.array(m.D).reshape(-1).tolist() == r["D"] and np.array(m.B).reshape(-1).tolist() == r["B"]
            out.append(dict(what="tables-independent-of-construction-history", degree=d, scheme=scheme, ok=bool(same),
                            detail="tau/C/D/B of a second object built after objects of other schemes and degrees %s" % ("are identical" if same else "DIFFER from the first object's")))
    return out


if __name__ == "__main__":
    print(json.dumps(main()))
