#!/bin/sh
# offline setup: nothing is built; verify the two interpreters and the solvers are present
set -e
cd "$(dirname "$0")"
python3-vt -c "import z3, numpy, scipy; print('engine interpreter ok: z3', z3.get_version_string())"
/venv/bin/python -c "import casadi, numpy; print('native interpreter ok: casadi', casadi.__version__)"
mkdir -p out evidence
